"""C02 - each layer's forward pass computes its defining operator."""
from ..core import Unestablished
from ..hir import walk, strip, pretty, short, calls, pat_binds
from .. import e1, e4
from . import spatial

LEVEL = "other"
RULES = {
    "R02.1": "operator index relation (loop-nest extraction, compared modulo loop-variable names): convolution accumulates "
             "x_pad[c][oh*s0 + kh*d0][ow*s1 + kw*d1] * K[f][c][kh][kw] into y[f][oh][ow] (sum starts at 0, reduction over exactly c, kh, kw, "
             "only bounds guards); transposed convolution accumulates x[c][i][j] * K[k][c][ki][kj] into y[k][i*s0 + ki - p0][j*s1 + kj - p1] "
             "with the crop guards (>= 0 via checked_sub, < extent); max-pool keeps a running maximum (strict >, initial f32::MIN) over "
             "x[c][h+k][w+l] and records (h+k, w+l)",
    "R02.4": "dense = activation(W.x + b): pre = weights.dot(x); bias added iff present; post = activation.forward(pre); returns (pre, post)",
    "R02.5": "composition: Network::_forward feeds the last activated tensor into each layer in order and appends its outputs; "
             "predict returns the last activated tensor of forward; spatial layers flatten iff their flag is set (after activation and dropout)",
    "R02.2": "axis typing (type-directed dataflow, sa/e3.py): in convolve, pad3d, upsample3d and the three spatial forward passes no "
             "additive / comparison / step / index / tuple-position use combines a height quantity (`.0` of kernel/stride/padding/"
             "dilation, x[0].len(), row index) with a width quantity (`.1`, x[0][0].len(), column index)",
    "R02.3": "flat-input re-chunking, sibling agreement: in the Data::Single arm of every spatial forward the vector is split with "
             "chunks_exact(h*w) then chunks_exact(w) where (h, w) are components 1, 2 of the layer's *inputs* shape",
}
RULES["R02.1"] += " | padding-applied-whenever-configured: the pad3d call in Convolution::forward is unconditional or skipped only when both paddings are zero (path condition of the call)"
RULES["R02.5"] += " | decided on the E6 effect summary of _forward: per Layer variant exactly one falling-through path whose effects are push(pre <- F.0), push(post <- F.1), push(max <- None | Some(F.2)) [, push(feedbacks <- vec![F.3, F.4])] with F = <payload>::forward(payload, activated.last() at loop entry); the four records are the returned tuple; no other effect"
ASSUMPTIONS = ["layer inputs match self.inputs (documented precondition of the spatial forwards)"]
TRUSTED = ["rustc nightly front end", "driver/src/main.rs", "sa/e1.py"]


FWD_FNS = ["convolution::Convolution::convolve", "convolution::Convolution::forward", "deconvolution::Deconvolution::forward",
           "maxpool::Maxpool::forward", "tensor::pad3d", "tensor::upsample3d"]


from .. import mac, macsig
from ..mac import Access
from ..e1 import Rat
from .common import top_stmts_of


def r1(ctx):
    c = ctx.crate
    # ---- convolution
    fn = ctx.fn("convolution::Convolution::convolve")
    ex = mac.extract(c, fn)
    st = [s_ for s_ in ex.stmts if len(s_.reads) == 2 and isinstance(s_.target, Access)]
    if len(st) != 1:
        raise Unestablished("convolve: expected one multiply-accumulate statement, found %d" % len(st), c.loc(fn))
    f = st[0]
    roles = {f.target.name: "Y"}
    for a in f.reads.values():
        roles[a.name] = "K" if len(a.idx) == 4 else "X"
    sig, ren, acc = macsig.signature(f, roles)
    where = c.loc(fn, f.node)
    ctx.check("R02.1", "convolution:index-relation", sig == macsig.spec_conv(), "index-relation:" + macsig.sig_str(sig), where, macsig.sig_str(sig),
              "convolve computes %s; the strided, dilated cross-correlation is %s" % (macsig.sig_str(sig), macsig.sig_str(macsig.spec_conv())))
    red = sorted(ren.get("%s#%d" % (l[1], l[0]), l[1]) for l in f.red_loops)
    ctx.check("R02.1", "convolution:reduction-over-c-kh-kw", f.op == "+=" and red == ["K1", "K2", "K3"] and str(ex.acc_init.get(_acc_hid(ex, f))) == "0",
              "reduction:%s:%s" % (f.op, ",".join(red)), where, "sum (from 0) over channels and kernel window", "reduction loops %s, op %s" % (red, f.op))
    dom = {ren.get("%s#%d" % (l[1], l[0]), l[1]): str(l[3]) for l in f.loops}
    okd = (dom.get("K0") == "len(kernels)" and dom.get("K1") == "len(kernels[0])" and dom.get("K2") == "len(kernels[0][0])" and dom.get("K3") == "len(kernels[0][0][0])")
    ya = [v for h, v in ex.allocs.items() if ex.names[h] == f.target.name]
    # an extent written as the length of the freshly allocated output at some level is that level's allocation extent
    def _own_extent(v):
        import re
        if ya and re.fullmatch(r"len\(%s(\[[^\]]*\])*\)" % re.escape(f.target.name), v or ""):
            depth = v.count("[")
            if depth < len(ya[0]):
                return str(ya[0][depth])
        return v
    dom = {k_: _own_extent(v_) for k_, v_ in dom.items()}
    okd = okd and ya and dom.get("Y1") == str(ya[0][1]) and dom.get("Y2") == str(ya[0][2]) and all(str(l[2]) == "0" and l[4] is None for l in f.loops)
    ctx.check("R02.1", "convolution:domain", bool(okd), "domain:" + str(sorted(dom.items())), where, "every loop covers its whole dimension")
    bounds_only = all(str(g).startswith("and(gt0(") for g in f.guards) and len(f.guards) <= 1
    ctx.check("R02.1", "convolution:guards", bounds_only, "guards:" + ";".join(str(g) for g in f.guards)[:120], where, "only the input-bounds guard")
    stores = [s_ for s_ in ex.stmts if s_.op == "=" and isinstance(s_.target, Access) and s_.target.name == f.target.name]
    ctx.check("R02.1", "convolution:store", len(stores) == 1 and [str(i) for i in stores[0].target.idx] == [str(i) for i in f.target.idx], "store", where, "y[f][oh][ow] = sum")
    # the number of window positions per axis: floor((extent - dilation*(kernel - 1) - 1) / stride) + 1 of the (already padded) input
    if ya and len(ya[0]) == 3:
        from .c08 import _subst as _sb
        tb = {"self.stride.0": Rat.atom("S0"), "self.stride.1": Rat.atom("S1"), "self.dilation.0": Rat.atom("D0"), "self.dilation.1": Rat.atom("D1"),
              "len(x[0])": Rat.atom("IH"), "len(x[0][0])": Rat.atom("IW"), "len(kernels[0][0])": Rat.atom("K0"), "len(kernels[0][0][0])": Rat.atom("K1")}
        for ax, got_, I_, K_, D_, S_ in (("height", ya[0][1], "IH", "K0", "D0", "S0"), ("width", ya[0][2], "IW", "K1", "D1", "S1")):
            want_ = e1.fn_atom("idiv", Rat.atom(I_) - Rat.atom(D_) * (Rat.atom(K_) - 1) - 1, Rat.atom(S_)) + 1
            g_ = _sb(got_, tb)
            ctx.check("R02.1", "convolution:output-" + ax, g_ == want_, "window-count:%s:%s" % (ax, short(str(g_), 80)), c.loc(fn),
                      "floor((extent - dilation*(kernel-1) - 1)/stride) + 1 window positions",
                      "convolve produces %s rows/columns of windows along the %s; the strided, dilated cross-correlation of an input of that extent has %s" % (g_, ax, want_))
    # ---- transposed convolution
    fn = ctx.fn("deconvolution::Deconvolution::forward")
    ex = mac.extract(c, fn)
    st = [s_ for s_ in ex.stmts if len(s_.reads) == 2 and isinstance(s_.target, Access)]
    if len(st) != 1:
        raise Unestablished("Deconvolution::forward: expected one multiply-accumulate statement", c.loc(fn))
    f = st[0]
    roles = {f.target.name: "Y"}
    for a in f.reads.values():
        roles[a.name] = "K" if len(a.idx) == 4 else "X"
    sig, ren, acc = macsig.signature(f, roles)
    where = c.loc(fn, f.node)
    ctx.check("R02.1", "deconvolution:index-relation", sig == macsig.spec_deconv() and f.op == "+=", "index-relation:" + macsig.sig_str(sig), where, macsig.sig_str(sig),
              "Deconvolution::forward computes %s (%s); the transposed convolution cropped by the padding is %s" % (macsig.sig_str(sig), f.op, macsig.sig_str(macsig.spec_deconv())))
    want = sorted([e1.cmp_atom("Ge", Rat.atom("X1") * macsig.S0 + Rat.atom("K2"), macsig.P0, integer=True), e1.cmp_atom("Ge", Rat.atom("X2") * macsig.S1 + Rat.atom("K3"), macsig.P1, integer=True)])
    lows = sorted(x for x in (str(macsig.rn(g, ren)) for g in f.guards) if x in want)
    ups = [g for g in f.guards if str(g).startswith("and(")]
    ya = [v for h, v in ex.allocs.items() if ex.names[h] == f.target.name]
    ok_up = False
    if len(ups) == 1 and ya:
        oh, ow = ya[0][1], ya[0][2]
        yi = f.target.idx
        wantu = e1.fn_atom("and", *sorted([Rat.atom(e1.cmp_atom("Lt", yi[1], oh)), Rat.atom(e1.cmp_atom("Lt", yi[2], ow))], key=str))
        ok_up = str(wantu) == str(ups[0])
    # and nothing else restricts the accumulation: the full set of guards (conjunctions flattened) is exactly the four bounds
    def flat_guards(gs):
        out = []
        for g in gs:
            a = str(g)
            if a in e1.REG and e1.REG[a][0] == "and":
                out += flat_guards(e1.REG[a][1])
            else:
                out.append(str(macsig.rn(g, ren)) if not isinstance(g, str) else g)
        return out
    allg = sorted(flat_guards(f.guards))
    extra_ok = True
    if ya:
        oh, ow = ya[0][1], ya[0][2]
        yi = f.target.idx
        want_all = sorted(want + [str(macsig.rn(Rat.atom(e1.cmp_atom("Lt", yi[1], oh)), ren)), str(macsig.rn(Rat.atom(e1.cmp_atom("Lt", yi[2], ow)), ren))])
        extra_ok = allg == want_all
        if not extra_ok:
            lows = lows + ["+other:" + ",".join(sorted(set(allg) - set(want_all)))[:80]]
    ctx.check("R02.1", "deconvolution:crop-guards", lows == want and ok_up and extra_ok, "crop-guards:" + ";".join(lows)[:100], where, "0 <= out index < out extent on both axes",
              "guards %s / %s" % (lows, [str(u)[:80] for u in ups]))
    dom = {ren.get("%s#%d" % (l[1], l[0]), l[1]): str(l[3]) for l in f.loops}
    okd = (dom.get("K0") == "len(kernels)" and dom.get("K1") == "len(kernels[0])" and dom.get("K2") == "len(kernels[0][0])" and dom.get("K3") == "len(kernels[0][0][0])"
           and dom.get("X1") == "len(x[0])" and dom.get("X2") == "len(x[0][0])" and all(str(l[2]) == "0" and l[4] is None for l in f.loops))
    ctx.check("R02.1", "deconvolution:domain", okd, "domain:" + str(sorted(dom.items())), where, "every loop covers its whole dimension")
    maxpool_forward(ctx, "R02.1")

def maxpool_forward(ctx, rule="R02.1"):
    """Maxpool::forward keeps a strict running maximum over the window x[c][h+k][w+l] (k < kernel.0, l < kernel.1) starting from f32::MIN and
    records the position (h+k, w+l) of the element that set it (shared with C01: the backward pass routes gradients to these positions)."""
    c = ctx.crate
    fn = ctx.fn("maxpool::Maxpool::forward")
    ex = mac.extract(c, fn)
    # the running maximum is the mutable scalar that is finally stored into the f32 output buffer
    stores = [s_ for s_ in ex.stmts if s_.op == "=" and isinstance(s_.target, Access) and len(s_.target.idx) == 3 and not s_.reads
              and len(s_.rhs.atoms()) == 1 and "#" in list(s_.rhs.atoms())[0]]
    vh = None
    for s_ in stores:
        h_ = int(list(s_.rhs.atoms())[0].split("#")[1])
        if h_ in ex.acc_init and str(ex.acc_init[h_]) not in ("tup(0, 0)",):
            vh = h_
    vals = [s_ for s_ in ex.local_stmts if s_.target[1] == vh and s_.reads]
    idxs = [s_ for s_ in ex.local_stmts if s_.target[1] != vh and str(s_.rhs).startswith("tup(") and vals and [str(g) for g in s_.guards] == [str(g) for g in vals[0].guards]]
    pair_form = None
    if len(vals) == 1 and not idxs:
        # the arg-max kept in two scalar locals: `best_row = h + k; best_column = w + l;` under the same guards, stored as `vec![(best_row, best_column)]`
        sc = [s_ for s_ in ex.local_stmts if s_.target[1] != vh and s_.target[1] in ex.acc_init and not any(a_.startswith("ACC") for a_ in s_.rhs.atoms())
              and [str(g) for g in s_.guards] == [str(g) for g in vals[0].guards]]
        if len(sc) == 2:
            order = None
            for x_ in walk(fn["body"]):
                if x_.get("k") == "assign":
                    tups = [y_ for y_ in walk(x_["r"]) if y_.get("k") == "tup" and len(y_["xs"]) == 2 and all(e4.local_hid(z_) is not None for z_ in y_["xs"])]
                    if tups and {e4.local_hid(z_) for z_ in tups[0]["xs"]} == {sc[0].target[1], sc[1].target[1]}:
                        order = [e4.local_hid(z_) for z_ in tups[0]["xs"]]
            if order:
                by = {s_.target[1]: s_ for s_ in sc}
                pair_form = (by[order[0]], by[order[1]])
                idxs = [by[order[0]]]
    if len(vals) != 1 or len(idxs) != 1:
        raise Unestablished("Maxpool::forward: running maximum not found", c.loc(fn))
    v = vals[0]
    vname = v.target[2]
    where = c.loc(fn, v.node)
    rd = list(v.reads.values())
    loops = {l[1]: l for l in v.loops}
    names = [l[1] for l in v.loops]
    okr = False
    if len(rd) >= 1 and len(names) == 5:
        cvar, hvar, wvar, kvar, lvar = ["%s#%d" % (l[1], l[0]) for l in v.loops]
        r = rd[0]
        okr = [str(i) for i in r.idx] == [cvar, str(Rat.atom(hvar) + Rat.atom(kvar)), str(Rat.atom(lvar) + Rat.atom(wvar))]
        kdom = str(v.loops[3][3]) == "self.kernel.0" and str(v.loops[4][3]) == "self.kernel.1"
        okr = okr and kdom
    ctx.check(rule, "maxpool:window", okr, "window:" + (repr(rd[0]) if rd else "?"), where, "window element x[c][h+k][w+l], k < kernel.0, l < kernel.1")
    strict = [g for g in v.guards if str(g).startswith("gt0(") and (vname + "#") in str(g)]
    acc_atom = [a for a, r_ in v.reads.items()]
    ok_strict = len(strict) == 1
    if ok_strict:
        hid = v.target[1]
        ok_strict = str(strict[0]) == e1.cmp_atom("Gt", Rat.atom(acc_atom[0]), Rat.atom("%s#%d" % (vname, hid)))
    ctx.check(rule, "maxpool:strict-running-maximum", ok_strict and str(ex.acc_init.get(v.target[1])).endswith("::MIN"), "max-update:" + ";".join(str(g) for g in v.guards)[:100], where,
              "value updated iff x > value, starting from f32::MIN", "update guards %s, initial %s" % ([str(g) for g in v.guards], ex.acc_init.get(v.target[1])))
    i = idxs[0]
    oki = False
    if okr and pair_form is not None:
        oki = (str(pair_form[0].rhs) == str(Rat.atom(hvar) + Rat.atom(kvar)) and str(pair_form[1].rhs) == str(Rat.atom(lvar) + Rat.atom(wvar))
               and all([str(g) for g in q_.guards] == [str(g) for g in v.guards] for q_ in pair_form))
    elif okr:
        oki = str(i.rhs) == str(e1.fn_atom("tup", Rat.atom(hvar) + Rat.atom(kvar), Rat.atom(lvar) + Rat.atom(wvar))) and [str(g) for g in i.guards] == [str(g) for g in v.guards]
    ctx.check(rule, "maxpool:argmax-recorded", oki, "argmax:" + str(i.rhs), c.loc(fn, i.node), "index = (h+k, w+l) under the same guard")



def _acc_hid(ex, stmt):
    for hid, v in ex.acc_init.items():
        if ("%s#%d" % (getattr(stmt, "via_accumulator", "?"), hid)) in ["%s#%d" % (getattr(stmt, "via_accumulator", "?"), hid)]:
            if getattr(stmt, "via_accumulator", None) is not None:
                return hid
    return None


def r4(ctx):
    """Dense::forward, decided on its E6 summary: on every path the result is (pre, post) with
    pre = W.dot(x) [+ bias in place iff self.bias is Some], post = activation.forward(pre) [dropout applied on top only under
    self.training with a configured rate] - whatever spelling (if let / match / guards) selects the cases."""
    from .. import e6
    c = ctx.crate
    fn = ctx.fn("dense::Dense::forward")
    where = c.loc(fn)
    E = e6.Exec(c, fn)
    paths = [p for p in E.run_fn() if p.exit is None or p.exit[0] == "return"]
    X = ("p", pat_binds(fn["params"][1])[0][0])
    SELF = ("p", "self")
    DOT = ("call", "tensor::Tensor::dot", (("field", SELF, "weights"), X))
    BIAS = ("field", SELF, "bias")
    ok_pre = ok_bias = ok_post = ok_ret = ok_order = bool(paths)
    seen_bias = set()
    why = ""
    for p in paths:
        val = p.val if p.exit is None else p.exit[1]
        if not (isinstance(val, tuple) and val and val[0] == "tup" and len(val[1]) == 2):
            ok_ret = False
            continue
        pre, post = val[1]
        has_bias = None
        for (t, pol) in p.pc:
            if isinstance(t, tuple) and t[0] == "is" and t[1] == BIAS:
                has_bias = (t[2] == "Option::Some") == pol
            if isinstance(t, tuple) and t[0] == "call" and t[1].endswith("::is_some") and t[2] == (BIAS,):
                has_bias = pol
            if isinstance(t, tuple) and t[0] == "call" and t[1].endswith("::is_none") and t[2] == (BIAS,):
                has_bias = not pol
        seen_bias.add(has_bias)
        # pre
        if has_bias:
            want_pre_alts = [("upd", DOT, "tensor::Tensor::add_inplace@" + e6.show(pl), (("payload", BIAS, "Option::Some", 0),)) for pl in (("local", "pre"),)]
            good = isinstance(pre, tuple) and pre and pre[0] == "upd" and pre[1] == DOT and pre[2].startswith("tensor::Tensor::add_inplace@") and pre[3] == (("payload", BIAS, "Option::Some", 0),)
            if not good:
                ok_bias = False
                why = "with a bias pre = %s" % e6.show(pre, 2)[:100]
        elif has_bias is False:
            if pre != DOT:
                ok_bias = False
                why = "without a bias pre = %s" % e6.show(pre, 2)[:100]
        else:
            ok_bias = False
            why = "a path does not decide whether a bias is present"
        if e6.strip_upd(pre) != DOT:
            ok_pre = False
        # post: activation of exactly that pre; dropout (if any) applied on top of it
        base = post
        while isinstance(base, tuple) and base and base[0] == "upd" and base[2].startswith("tensor::Tensor::dropout@"):
            base = base[1]
        if base != ("call", "activation::Function::forward", (("field", SELF, "activation"), pre)):
            ok_post = False
            why = "post = %s" % e6.show(post, 2)[:100]
        # effects: only the bias addition (before the activation is computed from pre) and dropout
        kinds = [(e[0], e[1].rsplit("::", 1)[-1]) for e in p.eff if e[0] == "mut"]
        if any(k_ not in (("mut", "add_inplace"), ("mut", "dropout")) for k_ in kinds) or any(e[0] not in ("mut",) for e in p.eff):
            ok_order = False
    ctx.check("R02.4", "pre-is-W-dot-x", ok_pre, "pre", where, "pre = self.weights.dot(x)")
    ctx.check("R02.4", "bias-added-iff-present", ok_bias and seen_bias == {True, False}, "bias:" + short(why, 80), where, "pre.add_inplace(bias) iff self.bias is Some")
    ctx.check("R02.4", "post-is-activation-of-pre", ok_post, "post:" + short(why, 80), where, "post = self.activation.forward(&pre) (of the biased pre)")
    ctx.check("R02.4", "returns-pre-post", ok_ret, "result", where, "(pre, post)")
    ctx.check("R02.4", "bias-before-activation", ok_post and ok_order, "statement-order", where, "dot, then bias, then activation; nothing else is modified")
    # Tensor::dot / product / add_inplace semantics are C15's rules


def r5(ctx):
    c = ctx.crate
    fn = ctx.fn("network::Network::_forward")
    from .. import e6 as e5
    E = e5.Exec(c, fn)
    paths = [p for p in E.run_fn() if p.exit is None or p.exit[0] == "return"]
    if len(paths) != 1:
        raise Unestablished("_forward: expected one non-panicking path through the function, found %d" % len(paths), c.loc(fn))
    ret = paths[0].val if paths[0].exit is None else paths[0].exit[1]
    roles = [e5.root_name(x) for x in ret[1]] if isinstance(ret, tuple) and ret and ret[0] == "tup" else []
    ctx.check("R02.5", "returns-four-records", len(roles) == 4 and all(roles) and len(set(roles)) == 4, "return-value:" + short(e5.show(ret), 80), c.loc(fn),
              "(preactivated, activated, maxpools, feedbacks) are the four vectors filled by the layer walk")
    if len(roles) != 4 or not all(roles):
        return
    pre_n, act_n, max_n, fb_n = roles
    loops = [e for e in paths[0].eff if e[0] == "loop" and E.loop_summaries[e[1]].get("kind") == "for"]
    if len(loops) != 1:
        raise Unestablished("_forward: expected one layer loop, found %d" % len(loops), c.loc(fn))
    lid, it = loops[0][1], loops[0][2]
    lnode = E.loop_summaries[lid]["node"]
    # the walk visits the slice self.layers[from..to] front to back (by element or by position)
    WIN = ("idx", ("field", ("p", "self"), "layers"), ("struct", "std::ops::Range", (("start", ("p", fn["params"][2]["name"] if fn["params"][2].get("k") == "bind" else "?")),
                                                                                       ("end", ("p", fn["params"][3]["name"] if fn["params"][3].get("k") == "bind" else "?")))))
    body = E.loop_summaries[lid]["paths"]
    sw = e5.seq_walk(it, lid, WIN)
    elem = e5.walk_element(body, sw["fwd"]) if sw and sw["fwd"] else None
    ctx.check("R02.5", "layer-range-in-order", elem is not None, "layer-walk:" + short(e5.show(it), 60), c.loc(fn, lnode), "for layer in &self.layers[from..to]")
    if elem is None:
        return
    X = None
    layer_adt = c.adts["network::Layer"]
    inp_name = pat_binds(fn["params"][1])[0][0]
    forms = set()

    def x_form(p, xin):
        """how the layer input of this path is obtained: 'last' = activated.last().unwrap(); 'some' / 'none' = the two arms of
        `match activated.last() { Some(prev) => prev, None => input }`"""
        a1 = e5.is_call(xin, "unwrap", 1) or e5.is_call(xin, "expect") if xin is not None else None
        a2 = e5.is_call(a1[0], "last", 1) if a1 else None
        if a2 and a2[0] == ("loopin", act_n, lid):
            return "last"
        if isinstance(xin, tuple) and len(xin) == 4 and xin[0] == "payload" and xin[2] == "Option::Some" and xin[3] == 0:
            l2 = e5.is_call(xin[1], "last", 1)
            if l2 and l2[0] == ("loopin", act_n, lid) and (("is", xin[1], "Option::Some"), True) in p.pc:
                return "some"
        if xin == ("p", inp_name):
            for (t, pol) in p.pc:
                if isinstance(t, tuple) and t[0] == "is" and ((t[2] == "Option::None" and pol) or (t[2] == "Option::Some" and not pol)):
                    l2 = e5.is_call(t[1], "last", 1)
                    if l2 and l2[0] == ("loopin", act_n, lid):
                        return "none"
        return None
    for v in layer_adt["variants"]:
        vp = "network::Layer::" + v["name"]
        kind = v["name"]
        mine = [p for p in body if e5.variant_of(p).get(elem) == vp]
        where = c.loc(fn, lnode)
        if len(mine) not in (1, 2) or any(p.exit is not None for p in mine):
            ctx.bad("R02.5", "forward-and-record:" + kind, "arm:%s:paths=%d" % (kind, len(mine)), where,
                    "expected exactly one falling-through path for %s layers, found %d (exits %s)" % (kind, len(mine), [p.exit for p in mine]))
            continue
        payload_ty = v["fields"][0]["ty"] if v["fields"] else "?"
        good = True
        myforms = []
        detail = ""
        for p in mine:
            fwd = e5.find_terms(tuple(p.eff), lambda t: t[0] == "call" and t[1] == payload_ty + "::forward")
            F = fwd[0] if fwd else None
            okf = F is not None and all(f == F for f in fwd) and len(F[2]) == 2 and F[2][0] == ("payload", elem, vp, 0)
            xin = F[2][1] if okf else None
            fm = x_form(p, xin)
            myforms.append(fm)
            want_max = ("var", "Option::None", ()) if kind not in ("Maxpool", "Feedback") else ("var", "Option::Some", (e5.mk_proj(F, 2),))
            want_fb = [] if kind != "Feedback" else [("vec", (e5.mk_proj(F, 3), e5.mk_proj(F, 4)))]
            got = {n_: e5.pushes_to(p, n_) for n_ in roles}
            okp = okf and got[pre_n] == [e5.mk_proj(F, 0)] and got[act_n] == [e5.mk_proj(F, 1)] and got[max_n] == [want_max] and got[fb_n] == want_fb
            others = [e for e in p.eff if not (e[0] == "push" and e[1][0] == "local" and e[1][1] in roles)]
            if not (okf and fm is not None and okp and not others):
                good = False
                detail = ("for a %s layer the walk records %s (other effects: %s); expected pre/post/max of %s::forward applied to the last activation recorded so far"
                          % (kind, {k_: [e5.show(t_, 2) for t_ in v_] for k_, v_ in got.items()}, [e5.show(e_, 2) for e_ in others], payload_ty))
                short_ = "arm:%s:%s" % (kind, short(";".join("%s<-%s" % (k_, ",".join(e5.show(t_, 3) for t_ in v_)) for k_, v_ in sorted(got.items())), 140))
            if fm is not None:
                X = xin
        if sorted(map(str, myforms)) not in (["last"], ["none", "some"]):
            if good:
                short_ = "arm:%s:paths=%d" % (kind, len(mine))
                detail = "the %s arm obtains its input as %s" % (kind, myforms)
            good = False
        forms.add("A" if myforms == ["last"] else "B")
        ctx.check("R02.5", "forward-and-record:" + kind, good, short_ if not good else "", where,
                  "(pre, post[, max]) = %s::forward(layer, last activation); pushed to the three records" % payload_ty, detail)
    ctx.check("R02.5", "input-is-last-activated", X is not None, "layer-input", c.loc(fn, lnode), "x = activated.last().unwrap() at the start of each step")
    # the first layer of the range reads the range input: either the record is seeded with it (and the seed removed at the end), or an empty record means "use the input"
    act_val = ret[1][roles.index(act_n)]
    post = [e for e in paths[0].eff if e[0] != "loop"]
    lo = act_val
    rm = None
    if isinstance(lo, tuple) and lo and lo[0] == "upd":
        rm, lo = lo, lo[1]
    entry = e5.entry_of(lo)
    if forms == {"A"}:
        oks = (entry == ("vec", (("p", inp_name),)) and rm is not None and rm[2].startswith("std::vec::Vec::<T, A>::remove@") and rm[3] == (("lit", "0"),)
               and len(post) == 1 and post[0][0] == "mut" and post[0][1].endswith("::remove"))
    elif forms == {"B"}:
        oks = (e5.is_call(entry, "new", 0) is not None or entry == ("vec", ()) or e5.is_call(entry, "with_capacity", 1) is not None) and rm is None and not post
    else:
        oks = False
    ctx.check("R02.5", "first-layer-reads-range-input", oks, "record-seed:" + short(e5.show(entry, 2) if entry else "?", 50), c.loc(fn),
              "activated = vec![input.clone()] .. activated.remove(0)   (or an empty record standing for the input)",
              "the activation record starts as %s and ends as %s: the first layer of the range must read exactly the given input, and the returned record must hold one entry per layer"
              % (e5.show(entry, 2) if entry else "?", e5.show(act_val, 2)[:120]))
    from .c12 import predict_rule
    predict_rule(ctx, "R02.5", "predict-is-last-activation")
    # flatten after activation/dropout in spatial forwards: decided on the E6 summary - the second component of the result is
    # `<post>.flatten()` exactly on the paths where self.flatten holds, the first component (pre-activation) is never flattened
    from .. import e6
    for l in ("convolution::Convolution", "deconvolution::Deconvolution", "maxpool::Maxpool"):
        f2 = ctx.fn(l + "::forward")
        okf = None
        try:
            E2_ = e6.Exec(c, f2)
            ps = [p_ for p_ in E2_.run_fn() if p_.exit is None or p_.exit[0] == "return"]
        except Unestablished:
            ps = []
        FL = ("field", ("p", "self"), "flatten")
        seen = set()
        for p_ in ps:
            val = p_.val if p_.exit is None else p_.exit[1]
            pol = [b_ for (t_, b_) in p_.pc if t_ == FL]
            if not (isinstance(val, tuple) and val and val[0] == "tup" and len(val[1]) >= 2) or not pol:
                okf = False
                continue
            seen.add(pol[0])
            is_flat = e6.is_call(e6.strip_upd(val[1][1]), "flatten", 1) is not None
            pre_flat = e6.is_call(e6.strip_upd(val[1][0]), "flatten", 1) is not None
            good = (is_flat == pol[0]) and not pre_flat
            okf = good if okf is None else (okf and good)
        ctx.check("R02.5", "flatten-flag:" + l.split("::")[-1], bool(okf) and seen == {True, False}, "flatten-handling", c.loc(f2), "post is flattened iff self.flatten; pre never")


def maxpool_extent(ctx):
    """the number of pooling windows per axis (what the forward walk visits and stores) equals floor((in - kernel) / stride) + 1, the announced
    extent: C08's R08.1 facts for Maxpool re-run under this property (an output with an extra, never written row is not the max of any window)"""
    from . import c08
    sub = type(ctx)(ctx.prop, ctx.facts)
    sub.guard("R08.1", "announced-vs-produced", c08.r1, sub)
    mine = [o for o in sub.obligations if o["instance"].startswith("Maxpool:") or o["status"] == "unestablished"]
    bad = [o for o in mine if o["status"] != "ok" and o["instance"].startswith(("Maxpool:height", "Maxpool:width", "Maxpool:buffer"))]
    for o in bad:
        ctx.bad("R02.1", "maxpool:" + o["instance"].split(":", 1)[1], o["key"].split("/", 3)[-1], o["where"], o["detail"])
    ctx.check("R02.1", "maxpool:output-extent", not bad and len([o for o in mine if o["instance"].startswith("Maxpool:")]) >= 3, "maxpool-extent", "src/maxpool.rs",
              "windows visited = floor((in - kernel)/stride) + 1 per axis = announced output extent")


def dense_linear_algebra(ctx):
    """activation(W x + b): `W x` is Tensor::dot - the matrix-vector product over every column, whatever the values (C15's R15.3 re-run under this property)"""
    from . import c15
    sub = type(ctx)(ctx.prop, ctx.facts)
    sub.guard("R15.3", "linear-algebra", c15.linear_algebra, sub)
    bad = [o for o in sub.obligations if o["status"] != "ok"]
    for o in bad:
        ctx.bad("R02.4", "linalg:" + o["instance"], o["key"].split("/", 3)[-1], o["where"], o["detail"])
    ctx.check("R02.4", "linear-algebra", not bad and len(sub.obligations) >= 7, "linear-algebra-broken", "src/tensor.rs", "%d facts about Tensor::dot / product / transpose" % len(sub.obligations))


def batch_prediction(ctx):
    """a network's prediction - also through predict_batch - is predict of every input, in input order (C12's R12.1 re-run under this property)"""
    from . import c12
    sub = type(ctx)(ctx.prop, ctx.facts)
    sub.guard("R12.1", "predict", c12.r1, sub)
    bad = [o for o in sub.obligations if o["status"] != "ok"]
    for o in bad:
        ctx.bad("R02.5", "batch:" + o["instance"], o["key"].split("/", 3)[-1], o["where"], o["detail"])
    ctx.check("R02.5", "batch-prediction", not bad and len(sub.obligations) >= 3, "batch-prediction-broken", "src/network.rs", "%d facts about predict / predict_batch" % len(sub.obligations))


RULES["R02.4"] += " | linear-algebra: Tensor::dot / product / transpose facts of R15.3 re-run here (W x is dot)"

RULES["R02.5"] += " | batch-prediction: predict_batch = predict of every input in order (R12.1 re-run here)"

RULES["R02.1"] += " | entries-stay-in-place (who-may-permute): over every function of the property's modules, no Vec/slice operation that moves entries to other positions (reverse, swap, rotate, sort .., mem::swap of two entries) outside the table of sites confirmed on the pinned tree (common.PERMUTING_SITES)"


RULES["R02.1"] += " | returned-as-computed: on the E6 value of every non-panicking path of the four layer forwards, the only straight-line in-place changes of the results are appends, the bias addition and dropout (each judged by its own rule); no entry of the output or of the max-pool index record is assigned, dropped or moved after the loops"


def run(ctx):
    from .common import returned_as_computed
    ctx.guard("R02.1", "returned-as-computed", returned_as_computed, ctx, "R02.1", {"src/dense.rs", "src/convolution.rs", "src/deconvolution.rs", "src/maxpool.rs"}, lambda p_, l_: not p_.startswith("<") and l_ not in ("create", "parameters", "calculate_output_size") and not any(w_ in l_ for w_ in ("backward", "gradient", "rotate", "rearrange")), ("hadamard", "add_inplace", "dropout"), 5)
    from .common import no_permuting_ops
    ctx.guard("R02.1", "entries-stay-in-place", no_permuting_ops, ctx, "R02.1", "layers-forward", {"src/dense.rs", "src/convolution.rs", "src/deconvolution.rs", "src/maxpool.rs"}, 15, lambda p_, l_: "backward" in l_ or "gradient" in l_ or l_ == "rotate")
    ctx.guard("R02.4", "linear-algebra", dense_linear_algebra, ctx)
    ctx.guard("R02.5", "batch-prediction", batch_prediction, ctx)
    ctx.guard("R02.1", "maxpool-extent", maxpool_extent, ctx)
    ctx.guard("R02.1", "operators", r1, ctx)
    from .c08 import padding_applied
    ctx.guard("R02.1", "padding", padding_applied, ctx, "R02.1")
    ctx.guard("R02.4", "dense", r4, ctx)
    ctx.guard("R02.5", "composition", r5, ctx)
    ctx.floor("R02.1", 12, "")
    ctx.floor("R02.4", 5, "")
    ctx.floor("R02.5", 10, "")
    ctx.guard("R02.2", "axis-typing", spatial.axis_typing, ctx, "R02.2", FWD_FNS, 61)  # measured 122
    for l in spatial.LAYERS:
        ctx.guard("R02.3", l, spatial.flat_rechunk, ctx, "R02.3", l)
    ctx.floor("R02.3", 6, "dims source + chunk sizes in three forwards")
