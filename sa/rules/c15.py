"""C15 - element-wise tensor arithmetic: rank-generic, shape-checked; outer/dot/transpose/clamp."""
from ..core import Unestablished
from ..hir import walk, strip, pretty, short, calls, pat_binds
from .. import e1, e4, arms
from ..e1 import Rat
from ..extract import Unrecognised
from .common import top_stmts_of

DEFINING_OPS = {"add_inplace": ["add"], "sub_inplace": ["sub"], "mul_inplace": ["mul"], "div_scalar_inplace": ["div"],
                "hadamard": ["mul", "mul"]}

LEVEL = "other"
RULES = {
    "R15.1": "for add/sub/mul/hadamard/div_scalar/mean/clamp every rank arm (Single..Quadruple) traverses all elements "
             "aligned and in order (idiom whitelist) and its per-element expression, reduced to a canonical rational "
             "form, equals the specified operation (a+b, a-b, a*b, a*b*s, a/s, (a+sum others)/(k+1), clamp(a,min,max)); "
             "one IEEE operation chain per element, identical in every rank; nested arms recurse into the same operation",
    "R15.5": "exactness across ranks: the per-element floating-point operations are the same tree (same association, e.g. (a*b)*s) in every "
             "rank arm of an operation, so the rounded result does not depend on the rank",
    "R15.2": "the shape assertion (assert_eq_shape!(self.shape, other.shape); for mean: for every other) is a statement "
             "executed before the rank dispatch; none of the operations assigns self.shape",
    "R15.3": "product[i][j] = a_i*b_j with shape Double(|a|,|b|); dot_i = sum_j row_i[j]*x_j with shape Single(rows); "
             "transpose[j][i] = d[i][j] with swapped dimensions",
    "R15.4": "hadamard3d multiplies aligned elements of two 3-D vectors and the scalar",
}
RULES["R15.5"] += " | defining-operations: with function-level temporaries expanded, each rank arm of add/sub/mul/div_scalar/hadamard performs exactly the defining IEEE operations (one add / sub / mul / div; two mul for the scaled product), e.g. a / s and not a * (1 / s)"
ASSUMPTIONS = ["equality of per-element expressions is over the reals (canonical rational form); each expression is a single "
               "IEEE operation chain in source order, so no re-association is hidden by the normal form for these operations",
               "std iterator semantics: zip pairs elements in order and stops at the shorter side; shapes are asserted equal first"]
TRUSTED = ["rustc nightly front end", "driver/src/main.rs", "sa/extract.py idiom whitelist", "sa/e1.py normal form"]

T = "tensor::Tensor::"
RANKS4 = ["Single", "Double", "Triple", "Quadruple"]


def _spec(op, fn):
    a, b = Rat.atom("r0"), Rat.atom("r1")
    if op == "add_inplace":
        return a + b
    if op == "sub_inplace":
        return a - b
    if op == "mul_inplace":
        return a * b
    if op == "hadamard":
        return a * b * arms.param_atom(fn, 2)
    if op == "div_scalar_inplace":
        return a / arms.param_atom(fn, 1)
    if op == "clamp":
        return e1.fn_atom("clamp", a, arms.param_atom(fn, 1), arms.param_atom(fn, 2))
    if op == "mean_inplace":
        oth = arms.param_atom(fn, 1)
        return (a + Rat.atom("SUM_OTHERS")) / (Rat.atom("len(%s)" % oth) + 1)
    raise KeyError(op)


def elementwise(ctx, op, nested=()):
    c = ctx.crate
    fn = ctx.fn(T + op)
    m = arms.data_match(fn["body"])
    if m is None:
        raise Unestablished("no rank dispatch (match on tensor::Data) in %s" % op, c.loc(fn))
    spec = _spec(op, fn)
    arms.guarded_arms(ctx, "R15.1", fn, m, op)
    ras = arms.rank_arms(m)
    seen = set()
    trees = {}
    env0 = arms.fn_level_env(c, fn, upto=m)
    for ra in ras:
        rank = ra["rank"]
        inst = "%s:%s" % (op, rank)
        where = c.loc(fn, ra["arm"]["body"])
        if ra["mixed"]:
            ctx.bad("R15.1", inst, "mixed-rank-arm", where, "arm combines different ranks")
            continue
        if rank in RANKS4:
            seen.add(rank)
            try:
                r = arms.extract(c, ra["arm"]["body"], ra["roots"])
                sym = e1.Sym(c, r.cellname(c), env=env0)
                if op == "mean_inplace":
                    _install_mean_hook(sym, c, fn, r, rank)
                sem = sym.run(r.body)
            except (Unrecognised, ValueError) as e:
                ctx.bad("R15.1", inst, "arm-not-recognised-as-elementwise", where,
                        "cannot establish that the %s arm visits every element aligned and in order: %s" % (rank, e))
                continue
            if r.levels != RANKS4.index(rank) + 1:
                ctx.bad("R15.1", inst, "traversal-depth-%d" % r.levels, where, "a %s arm must traverse %d levels" % (rank, RANKS4.index(rank) + 1))
                continue
            try:
                trees[rank] = e1.optree_of_update(c, r.body, r.cellname(c))
            except Exception as e:  # noqa
                trees[rank] = ("?", str(e))
            if len(sem) != 1 or sem[0][0]:
                ctx.bad("R15.1", inst, "unexpected-guards", where, str([g for g, _ in sem]))
                continue
            st = sem[0][1]
            got = st.get("r0")
            extra = sorted(k for k in st if k not in ("r0",) and not (k == "<value>" and "r0" in st))
            if got is None:
                ctx.bad("R15.1", inst, "result-cell-not-written", where, "the arm does not write the element of self: %s" % {k: str(v) for k, v in st.items()})
            elif got != spec:
                ctx.bad("R15.1", inst, "wrong-element-expression:" + str(got), where,
                        "%s arm of %s computes `%s` per element, specified `%s`" % (rank, op, got, spec))
            elif extra and extra != ["<value>"]:
                ctx.bad("R15.1", inst, "writes-other-cells:" + ",".join(extra), where, "")
            else:
                ctx.ok("R15.1", inst, "elem := %s  (%s)" % (got, "/".join(r.style)), where)
        elif rank in nested:
            # recursion into the same operation on the paired sub-tensors
            cs = [cal for (_, cal) in calls(ra["arm"]["body"]) if cal.startswith(T) and cal != T + "clone"]
            ok = cs and all(cal == T + op for cal in cs)
            uses_zip = op == "div_scalar_inplace" or any(x.get("k") == "mcall" and x["name"] == "zip" for x in walk(ra["arm"]["body"]))
            # arguments of the recursive call: the paired element (closure binding) or the scalar parameter itself
            phids = {pat_binds(p)[0][1] for p in fn["params"][1:] if pat_binds(p)}
            for x in walk(ra["arm"]["body"]):
                if x.get("k") == "mcall" and x["callee"] == T + op:
                    for a_ in x["args"]:
                        h = e4.local_hid(a_)
                        if h is None or (op == "div_scalar_inplace" and h not in phids):
                            ok = False
            # .. position by position: the two lists are walked in lockstep as they are (an adaptor such as `flatten` / `filter` / `skip` on either side
            # would pair the k-th remaining entry of one list with the k-th remaining entry of the other)
            def plain_walk(e_):
                e_ = strip(e_)
                if e_ is not None and e_.get("k") == "mcall" and e_["name"] in ("iter", "iter_mut", "into_iter") and not e_["args"]:
                    e_ = strip(e_["recv"])
                while e_ is not None and e_.get("k") in ("ref", "un"):
                    e_ = strip(e_["x"])
                return e_ is not None and e_.get("k") == "local"
            for x in walk(ra["arm"]["body"]):
                if x.get("k") == "mcall" and x["name"] == "zip" and not (plain_walk(x["recv"]) and len(x["args"]) == 1 and plain_walk(x["args"][0])):
                    ok = False
                    cs = cs + ["zip of adapted sequences"]
            ctx.check("R15.1", inst, bool(ok and uses_zip), "nested-arm-does-not-recurse:" + ",".join(sorted(set(cs))), where,
                      "recurses into %s on aligned sub-tensors" % op,
                      "nested arm of %s calls %s" % (op, cs))
        else:
            outs = e4.outcomes(c, ra["arm"]["body"], lambda n: False)
            ctx.check("R15.1", inst, not outs, "unexpected-rank-arm", where, "arm panics", "arm for %s is neither a specified rank nor a rejection" % rank)
    if op in DEFINING_OPS and trees:
        # the element-wise IEEE result is ONE rounding of the defining operation: the arm must perform exactly the
        # defining operations on its operands (fn-level temporaries expanded), e.g. a / s and not a * (1 / s)
        tenv = {}
        for s_ in top_stmts_of(fn["body"]):
            if s_ is m or any(x_ is m for x_ in walk(s_)):
                break
            if s_.get("k") == "let" and s_["pat"].get("k") == "bind" and s_.get("init") is not None:
                tenv[s_["pat"]["name"]] = e1.optree(c, s_["init"], {}, lambda n_: None)

        def expand(t):
            if isinstance(t, tuple):
                if len(t) == 2 and t[0] == "var" and t[1] in tenv:
                    return expand(tenv[t[1]])
                return tuple(expand(x) for x in t)
            return t

        def ops_of(t, acc):
            if isinstance(t, tuple):
                if t and isinstance(t[0], str) and t[0] in ("add", "sub", "mul", "div", "rem", "neg", "call", "if", "other", "stmt"):
                    acc.append(t[0])
                for x in (t[1:] if t and isinstance(t[0], str) else t):
                    ops_of(x, acc)
            return acc
        for rank, t in sorted(trees.items()):
            got_ops = sorted(ops_of(expand(t), []))
            ctx.check("R15.5", "%s:%s:defining-operations" % (op, rank), got_ops == sorted(DEFINING_OPS[op]),
                      "element-computed-by:" + "+".join(got_ops), c.loc(fn, m), "per element exactly: " + "+".join(DEFINING_OPS[op]),
                      "%s computes each element with the operations %s (temporaries expanded: %s); the IEEE result of the defining operation "
                      "%s is a single rounding of it" % (op, got_ops, short(str(expand(t)), 120), DEFINING_OPS[op]))
    if op != "mean_inplace" and len(trees) >= 2:
        ref_rank = "Single" if "Single" in trees else sorted(trees)[0]
        for rank, t in sorted(trees.items()):
            if rank == ref_rank:
                continue
            ctx.check("R15.5", "%s:%s" % (op, rank), t == trees[ref_rank], "operation-order-differs-from-%s-arm" % ref_rank, c.loc(fn, m),
                      "same IEEE operations in the same association as the %s arm" % ref_rank,
                      "%s: the %s arm performs %s but the %s arm %s: the rounded result then depends on the tensor's rank" % (op, rank, t, ref_rank, trees[ref_rank]))
    for rank in RANKS4:
        if rank not in seen:
            ctx.bad("R15.1", "%s:%s" % (op, rank), "rank-not-supported", c.loc(fn, m), "%s has no %s arm" % (op, rank))
    for nrank in nested:
        if nrank not in [ra["rank"] for ra in ras]:
            ctx.bad("R15.1", "%s:%s" % (op, nrank), "rank-not-supported", c.loc(fn, m), "%s has no %s arm" % (op, nrank))
    return fn, m


def _install_mean_hook(sym, c, fn, r, rank):
    """`others.iter().map(|t| match &t.data { Data::<rank>(d) => d[i].., _ => panic }).sum()` -> SUM_OTHERS"""
    oth_hid = pat_binds(fn["params"][1])[0][1]
    cn_env = r.env
    depth = RANKS4.index(rank) + 1

    def hook(N, n):
        if n.get("k") != "mcall" or n["name"] != "sum":
            return None
        mp = strip(n["recv"])
        if mp.get("k") != "mcall" or mp["name"] != "map":
            return None
        src = strip(mp["recv"])
        if not (src.get("k") == "mcall" and src["name"] == "iter" and e4.local_hid(src["recv"]) == oth_hid):
            raise ValueError("sum over something else than the `others` parameter")
        cl = strip(mp["args"][0])
        th = pat_binds(cl["params"][0])[0][1]
        body = strip(cl["body"])
        while body.get("k") == "blk" and not body["b"]["stmts"]:
            body = strip(body["b"]["tail"])
        if body.get("k") == "if" and strip(body["c"]).get("k") == "letx" and body["el"] is not None:
            # `if let Data::<rank>(d) = &t.data { d[i].. } else { panic }` read as the two-armed match it is
            cx = strip(body["c"])
            body = {"k": "match", "scrut": cx["init"], "arms": [{"pat": cx["pat"], "guard": None, "body": body["th"]},
                                                                {"pat": {"k": "wild"}, "guard": None, "body": body["el"]}]}
        tail_expr = None
        if body.get("k") == "blk" and len(body["b"]["stmts"]) == 1 and body["b"]["tail"] is not None and body["b"]["stmts"][0].get("k") == "let" \
                and body["b"]["stmts"][0]["pat"].get("k") == "bind" and body["b"]["stmts"][0].get("init") is not None and strip(body["b"]["stmts"][0]["init"]).get("k") == "match":
            # `let d = match &t.data { Data::<rank>(d) => d, _ => panic }; d[i]..`  (also what `let Data::<rank>(d) = &t.data else { panic }` desugars to)
            tail_expr = (body["b"]["stmts"][0]["pat"]["hid"], strip(body["b"]["tail"]))
            body = strip(body["b"]["stmts"][0]["init"])
        if body.get("k") != "match":
            raise ValueError("mean: closure is not a match on the other tensor's data")
        live = [a for a in body["arms"] if e4.outcomes(c, a["body"], lambda x: False)]
        if len(live) != 1:
            raise ValueError("mean: %d non-panicking arms" % len(live))
        vp, binds = e4.arm_variant(live[0])
        if vp != "tensor::Data::" + rank or len(binds) != 1:
            raise ValueError("mean: inner arm is %s inside a %s arm" % (vp, rank))
        e = strip(live[0]["body"])
        root_hid = binds[0][1]
        if tail_expr is not None:
            if e4.local_hid(e) != binds[0][1]:
                raise ValueError("mean: the let-bound data is not the matched payload")
            root_hid, e = tail_expr
        idx = []
        while e.get("k") == "index":
            idx.append(strip(e["i"]))
            e = strip(e["b"])
        idx.reverse()
        if e4.local_hid(e) != root_hid or len(idx) != depth:
            raise ValueError("mean: element is not d[i][j]..")
        for lvl, i in enumerate(idx):
            if not (i.get("k") == "local" and cn_env.get(i["hid"]) == ("idx", lvl)):
                raise ValueError("mean: index %d is not the enumerate index of level %d" % (lvl, lvl))
        return Rat.atom("SUM_OTHERS")

    orig = sym._norm

    def patched(store, env):
        N = orig(store, env)
        N.reduce_hook = hook
        return N
    sym._norm = patched


def shape_check_first(ctx, op, fn, m, per_other=False):
    c = ctx.crate
    b = fn["body"]
    while b.get("k") == "blk":
        b = b["b"]
    nodes = list(b["stmts"]) + ([b["tail"]] if b["tail"] is not None else [])
    found = None
    for s in nodes:
        if s is m or any(x is m for x in walk(s)):
            break
        for x in walk(s):
            if x.get("mac") == "assert_eq_shape" and x.get("k") == "if":
                cnd = strip(x["c"])
                if cnd.get("k") == "bin" and cnd["op"] == "Ne":
                    sides = [pretty(strip(cnd["l"])), pretty(strip(cnd["r"]))]
                    found = (s, sides, x)
    inst = op
    if found is None:
        ctx.bad("R15.2", inst, "no-shape-assertion-before-dispatch", c.loc(fn, m),
                "%s does not assert equal shapes before operating: mismatched operands are silently truncated by zip" % op)
        return
    s, sides, x = found
    ok_sides = sorted(sides)[0].endswith(".shape") and sorted(sides)[1].endswith(".shape") and "self.shape" in sides and sides[0] != sides[1]
    if per_other:
        ok_sides = ok_sides and s.get("k") == "for" and pretty(strip(s["iter"])) == fn["params"][1]["name"]
    # .. and it is made for every operand: nothing decides whether the assertion is evaluated (for mean_inplace: nothing but the walk
    # over the other tensors)
    pcs = [it for it in (e4.path_conditions(c, fn["body"], x) or []) if it["kind"] == "if" or not it.get("panics")]   # earlier rejections are fine
    if pcs:
        ok_sides = False
        sides = sides + ["only-under:" + short(pretty(pcs[0]["c"]), 50)]
    ctx.check("R15.2", inst, ok_sides, "shape-assertion-compares:" + "~".join(sides), c.loc(fn, x),
              "assert_eq_shape!(%s) before the dispatch, unconditionally" % ", ".join(sides[:2]))


def no_shape_write(ctx, ops):
    c = ctx.crate
    for op in ops:
        bad = [w for mk, mf in c.mir_bodies(T + op) for w in mf["writes"] if w["adt"] == "tensor::Tensor" and w["field"] == "shape"]
        ctx.check("R15.2", "shape-unchanged:" + op, not bad, "operation-assigns-shape", T + op, "no MIR write to Tensor.shape")


def _single_live_arm(c, m):
    return [a for a in m["arms"] if e4.outcomes(c, a["body"], lambda x: False)]


def linear_algebra(ctx):
    c = ctx.crate
    # ---- product and dot, decided on E6 effect summaries (map/collect chains and push loops alike)
    from .. import e6
    SD, OD = ("field", ("p", "self"), "data"), ("field", ("p", "other"), "data")

    def result_of(fnpath, want_self, want_other):
        fn_ = ctx.fn(fnpath)
        E_ = e6.Exec(c, fn_)
        out = []
        for p_ in E_.run_fn():
            if p_.exit is not None and p_.exit[0] != "return":
                continue
            vs = e6.variant_of(p_)
            val_ = p_.val if p_.exit is None else p_.exit[1]
            out.append((vs.get(SD), vs.get(OD), val_))
        return fn_, E_, out

    def struct_fields(val_):
        if isinstance(val_, tuple) and val_ and val_[0] == "struct":
            return dict(val_[2])
        return {}

    def ctor_arg(t, name):
        if isinstance(t, tuple) and t and t[0] in ("var", "call") and t[1].endswith(name):
            return t[2]
        return None
    fn, E, res = result_of(T + "product", "Single", "Single")
    where = c.loc(fn)
    live = [(a, b, v) for (a, b, v) in res]
    ok = okshape = len(live) == 1 and live[0][0] == "tensor::Data::Single" and live[0][1] == "tensor::Data::Single"
    detail = "%d non-panicking path(s)" % len(live)
    if ok:
        A, B = ("payload", SD, "tensor::Data::Single", 0), ("payload", OD, "tensor::Data::Single", 0)
        f = struct_fields(live[0][2])
        d = ctor_arg(f.get("data"), "Data::Double")
        X = d[0] if d else None
        o_ = e6.elementwise_sequence(E, X) if X is not None else None
        i_ = e6.elementwise_sequence(E, o_[1]) if o_ else None
        ok = o_ is not None and i_ is not None and o_[0] == A and i_[0] == B and i_[1] == e6.mk_bin("Mul", o_[2], i_[2])
        detail = "product[i][j] = %s" % (e6.show(i_[1], 2) if i_ else "?")
        sh = ctor_arg(f.get("shape"), "Shape::Double")
        lenf = lambda t_: e6.is_call(t_, "len", 1)[0] if e6.is_call(t_, "len", 1) else None
        okshape = bool(sh) and len(sh) == 2 and ((lenf(sh[0]) == X and lenf(sh[1]) == ("idx", X, ("lit", "0"))) or (lenf(sh[0]) == A and lenf(sh[1]) == B))
    ctx.check("R15.3", "product", ok, "outer-product-form-not-a_i*b_j", where, detail, "could not establish product[i][j] = a_i*b_j: " + detail)
    ctx.check("R15.3", "product-shape", okshape, "product-shape", where, "shape = Double(rows, columns) of the produced matrix")
    fn, E, res = result_of(T + "dot", "Double", "Single")
    where = c.loc(fn)
    ok = okshape = len(res) == 1 and res[0][0] == "tensor::Data::Double" and res[0][1] == "tensor::Data::Single"
    detail = "%d non-panicking path(s)" % len(res)
    if ok:
        M, V = ("payload", SD, "tensor::Data::Double", 0), ("payload", OD, "tensor::Data::Single", 0)
        f = struct_fields(res[0][2])
        d = ctor_arg(f.get("data"), "Data::Single")
        X = d[0] if d else None
        o_ = e6.elementwise_sequence(E, X) if X is not None else None
        ok = False
        if o_ is not None and o_[0] == M:
            sm = e6.is_call(o_[1], "sum", 1)
            mp = e6.is_call(sm[0], "map", 2) if sm else None
            zp = e6.is_call(mp[0], "zip", 2) if mp else None
            if zp and zp[0] == o_[2] and zp[1] == V and isinstance(mp[1], tuple) and mp[1][0] == "closure":
                CS = E.loop_summaries.get("cl%s" % mp[1][1])
                if CS and len(CS["paths"]) == 1 and CS["paths"][0].exit is None and not CS["paths"][0].pc:
                    el = ("elem", CS["recv"], "cl%s" % mp[1][1])
                    ok = CS["paths"][0].val == e6.mk_bin("Mul", e6.mk_proj(el, 0), e6.mk_proj(el, 1))
                    detail = "dot_i = sum_j %s" % e6.show(CS["paths"][0].val, 2)
        sh = ctor_arg(f.get("shape"), "Shape::Single")
        okshape = bool(sh) and len(sh) == 1 and e6.is_call(sh[0], "len", 1) is not None and e6.is_call(sh[0], "len", 1)[0] in (X, M)
    ctx.check("R15.3", "dot", ok, "dot-form-not-sum_j-M_ij*x_j", where, detail, "could not establish dot_i = sum_j M_ij*x_j " + detail)
    ctx.check("R15.3", "dot-shape", okshape, "dot-shape", where, "shape = Single(number of rows)")
    # ---- transpose on the E6 summary: one result path (data is Double = D); the result is Tensor{Double(len(t), len(t[0])), Double(t)} with
    #      t allocated as len(D[0]) x len(D) zeros and filled by a walk over every row i of D and every position j of that row: t[j][i] = D[i][j]
    fn = ctx.fn(T + "transpose")
    where = c.loc(fn)
    E = e6.Exec(c, fn)
    live = [p for p in E.run_fn() if p.exit is None or p.exit[0] == "return"]
    ok, detail, okal, oksh = False, "", False, False
    DATA = ("field", ("p", "self"), "data")
    if len(live) == 1 and e6.variant_of(live[0]).get(DATA) == "tensor::Data::Double" and len(live[0].pc) == 1:
        P = live[0]
        D = ("payload", DATA, "tensor::Data::Double", 0)
        val = P.val if P.exit is None else P.exit[1]
        f = dict(val[2]) if isinstance(val, tuple) and val and val[0] == "struct" and val[1].endswith("tensor::Tensor") else {}
        dd = ctor_arg(f.get("data"), "Data::Double")
        TR = dd[0] if dd else None
        shp = ctor_arg(f.get("shape"), "Shape::Double")
        LENF = lambda x: ("call", "std::vec::Vec::<T, A>::len", (x,))
        if TR is not None and shp and len(shp) == 2:
            oksh = e6.strip_upd(shp[0]) == LENF(e6.strip_upd(TR)) and e6.strip_upd(shp[1]) == LENF(("idx", e6.strip_upd(TR), ("lit", "0")))
        if isinstance(TR, tuple) and len(TR) == 4 and TR[0] == "loopout":
            name, l1, entry = TR[1], TR[2], TR[3]
            cn = e6.const_nest(E, entry)
            okal = cn is not None and [e6.lin(e6.strip_upd(x)) for x in cn[0]] == [e6.lin(LENF(("idx", D, ("lit", "0")))), e6.lin(LENF(D))] and cn[1] in (("lit", "0.0"), ("lit", "0.0f32"), ("lit", "0."))
            S1 = E.loop_summaries.get(l1)
            tops = [e for e in P.eff if not (e[0] == "loop" and (e[1] == l1 or all(not x[1] for x in e[3])))]     # (effect-free closures only compute values)
            sw1 = e6.seq_walk(S1["iter"], l1, D) if S1 and S1.get("kind") == "for" else None
            if sw1 and sw1["fwd"] and len(S1["paths"]) == 1 and not S1["paths"][0].pc and S1["paths"][0].exit is None and not tops:
                e1_ = S1["paths"][0].eff
                pos1 = sw1["pos"]["fwd"]
                if len(e1_) == 1 and e1_[0][0] == "loop" and pos1 is not None:
                    l2 = e1_[0][1]
                    it2 = e1_[0][2]
                    q2 = [e6.Path({}, pc=x[0], eff=x[1], exit=x[2], val=x[3]) for x in e1_[0][3]]
                    el1 = ("elem", S1["iter"], l1)
                    rows = [("proj", el1, 1), el1, ("idx", D, el1), ("idx", D, ("proj", el1, 0))]
                    sw2 = None
                    for r_ in rows:
                        if sw1["fwd"](r_):
                            sw2 = e6.seq_walk(it2, l2, r_) or sw2
                    if sw2 and sw2["fwd"] and sw2["pos"]["fwd"] is not None and len(q2) == 1 and not q2[0].pc and q2[0].exit is None and len(q2[0].eff) == 1 and q2[0].eff[0][0] == "set":
                        st = q2[0].eff[0]
                        pl, v = st[1], st[2]
                        okp = (isinstance(pl, tuple) and pl[0] == "idx" and isinstance(pl[1], tuple) and pl[1][0] == "idx" and pl[1][1] == ("local", name)
                               and e6.lin(e6.strip_upd(pl[1][2])) == sw2["pos"]["fwd"] and e6.lin(e6.strip_upd(pl[2])) == pos1)
                        ok = okp and sw2["fwd"](v)
                        detail = "%s = %s" % (e6.show(pl, 3)[:80], e6.show(v, 3)[:60])
    ctx.check("R15.3", "transpose", ok, "transpose-form-not-t[j][i]=d[i][j]", where, detail, "could not establish transposed[j][i] = d[i][j]: " + detail)
    ctx.check("R15.3", "transpose-alloc", okal, "transpose-allocation", where, "vec![vec![0.0; rows]; cols]")
    ctx.check("R15.3", "transpose-shape", oksh, "transpose-shape:shape", where, "Shape::Double(transposed.len(), transposed[0].len())")


def hadamard3d(ctx):
    c = ctx.crate
    fn = ctx.fn("tensor::hadamard3d")
    roots = {pat_binds(fn["params"][0])[0][1]: "r0", pat_binds(fn["params"][1])[0][1]: "r1"}
    where = c.loc(fn)
    try:
        r = arms.extract(c, fn["body"], roots)
        sem = e1.Sym(c, r.cellname(c)).run(r.body)
        val = sem[0][1].get("<value>")
        spec = Rat.atom("r0") * Rat.atom("r1") * arms.param_atom(fn, 2)
        ctx.check("R15.4", "hadamard3d", r.levels == 3 and val == spec, "wrong-element-expression:" + str(val), where,
                  "elem = %s over 3 aligned levels" % val, "hadamard3d computes %s (levels %d), specified %s" % (val, r.levels, spec))
    except (Unrecognised, ValueError) as e:
        ctx.bad("R15.4", "hadamard3d", "not-recognised-as-elementwise", where, str(e))


def shape_equality(ctx, rule="R15.2"):
    """`Shape == Shape` (what every shape refusal rests on) is: same variant and every extent equal - decided on the E6
    summary of <Shape as PartialEq>::eq: for every variant V the path on which both operands are V evaluates to the
    conjunction of the component-wise equalities of ALL its fields; every path with different variants evaluates to false."""
    from .. import e6
    c = ctx.crate
    fn = ctx.fn("<tensor::Shape as std::cmp::PartialEq>::eq")
    E = e6.Exec(c, fn)
    paths = [p for p in E.run_fn() if p.exit is None or p.exit[0] == "return"]
    A, B = ("p", pat_binds(fn["params"][0])[0][0]), ("p", pat_binds(fn["params"][1])[0][0])

    def conj(t, acc):
        if isinstance(t, tuple) and t and t[0] == "bin" and t[1] == "And":
            conj(t[2], acc)
            conj(t[3], acc)
        else:
            acc.append(t)
        return acc

    def simplify(t, va, vb):
        """expand vec == vec and discriminant == discriminant under the known variants"""
        out = []
        for a in conj(t, []):
            if isinstance(a, tuple) and a[0] == "bin" and a[1] == "Eq":
                l, r = a[2], a[3]
                if isinstance(l, tuple) and isinstance(r, tuple) and l and r and l[0] == r[0] and l[0] in ("vec", "tup"):       # element-wise / component-wise equality
                    if len(l[1]) != len(r[1]):
                        out.append(("lit", "false"))
                    else:
                        out += [e6.mk_bin("Eq", x, y) for x, y in zip(l[1], r[1])]
                    continue
                if e6.is_call(l, "discriminant", 1) is not None and e6.is_call(r, "discriminant", 1) is not None and {e6.is_call(l, "discriminant", 1)[0], e6.is_call(r, "discriminant", 1)[0]} == {A, B}:
                    out.append(("lit", "true" if va == vb else "false"))
                    continue
            out.append(a)
        if any(x == ("lit", "false") for x in out):
            return [("lit", "false")]
        return [x for x in out if x != ("lit", "true")]
    for v in c.adts["tensor::Shape"]["variants"]:
        vp = "tensor::Shape::" + v["name"]
        mine = [p for p in paths if e6.variant_of(p).get(A) == vp and e6.variant_of(p).get(B) == vp]
        n = len(v["fields"])
        want = sorted(repr(e6.mk_bin("Eq", ("payload", A, vp, i), ("payload", B, vp, i))) for i in range(n))
        ok = bool(mine)
        got = "?"
        for p in mine:
            val = p.val if p.exit is None else p.exit[1]
            g = sorted(repr(x) for x in simplify(val, vp, vp))
            got = e6.show(val, 2)
            if g != want:
                ok = False
        ctx.check(rule, "shape-equality:" + v["name"], ok, "shape-equality-is:" + short(got, 80), c.loc(fn),
                  "%s == %s iff all %d extents are equal" % (v["name"], v["name"], n),
                  "two %s shapes compare equal when `%s`; equality must compare all %d extents, otherwise operands of different shape are accepted" % (v["name"], got, n))
    # different variants are never equal
    okd = True
    for p in paths:
        va, vb = e6.variant_of(p).get(A), e6.variant_of(p).get(B)
        if va is not None and vb is not None and va == vb:
            continue
        val = p.val if p.exit is None else p.exit[1]
        if simplify(val, va or "?a", vb or "?b") != [("lit", "false")]:
            okd = False
    ctx.check(rule, "shape-equality:different-kinds", okd and bool(paths), "different-kinds-may-compare-equal", c.loc(fn), "shapes of different kinds are unequal")


RULES["R15.1"] += " | entries-stay-in-place (who-may-permute): over every function of the property's modules, no Vec/slice operation that moves entries to other positions (reverse, swap, rotate, sort .., mem::swap of two entries) outside the table of sites confirmed on the pinned tree (common.PERMUTING_SITES)"


RULES["R15.1"] += " | writes-inside-the-walk: on the E6 summary of every non-panicking path of the in-place tensor operations (&mut self), the straight-line part contains no assignment to an indexed place and no non-appending Vec/slice mutator: all entry writes happen inside the element-wise walk"


RULES["R15.1"] += " | returned-as-computed: the same test on the returned value of every value-returning tensor function (one_hot, whose definition is one assigned entry, and reshape, judged under C14, excepted)"


def run(ctx):
    from .common import returned_as_computed
    ctx.guard("R15.1", "returned-as-computed", returned_as_computed, ctx, "R15.1", {"src/tensor.rs"}, lambda p_, l_: not p_.startswith("<") and l_ not in ("one_hot", "reshape"), ("field-assignment",), 25)
    from .common import writes_inside_the_walk
    ctx.guard("R15.1", "writes-inside-the-walk", writes_inside_the_walk, ctx, "R15.1", {"src/tensor.rs"}, lambda p_, l_, f_: (f_.get("inputs") or [""])[0].startswith("&mut") and l_ not in ("extend", "reshape"), 6)
    from .common import no_permuting_ops
    ctx.guard("R15.1", "entries-stay-in-place", no_permuting_ops, ctx, "R15.1", "tensor", {"src/tensor.rs"}, 40)
    ctx.guard("R15.2", "shape-equality", shape_equality, ctx, "R15.2")
    for op, nested in (("add_inplace", ("Nested", "NestedOptional")), ("sub_inplace", ()), ("mul_inplace", ()), ("hadamard", ()),
                       ("div_scalar_inplace", ("Nested",)), ("mean_inplace", ()), ("clamp", ())):
        r = ctx.guard("R15.1", op, elementwise, ctx, op, nested)
        if r and op in ("add_inplace", "sub_inplace", "mul_inplace", "hadamard", "mean_inplace"):
            ctx.guard("R15.2", op, shape_check_first, ctx, op, r[0], r[1], op == "mean_inplace")
    ctx.guard("R15.2", "shape-unchanged", no_shape_write, ctx, ["add_inplace", "sub_inplace", "mul_inplace", "hadamard", "div_scalar_inplace", "mean_inplace"])
    ctx.guard("R15.3", "linear-algebra", linear_algebra, ctx)
    ctx.guard("R15.4", "hadamard3d", hadamard3d, ctx)
    ctx.floor("R15.5", 18, "6 operations x 3 non-reference ranks")
    ctx.floor("R15.1", 31, "7 operations x 4 ranks + 3 nested arms")
    ctx.floor("R15.2", 5 + 6, "5 shape assertions + 6 shape-unchanged facts")
    ctx.floor("R15.3", 7, "product, dot, transpose forms and shapes")
