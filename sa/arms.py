"""Rank arms: `match` arms destructuring tensor::Data variants, and their per-element semantics."""
from .hir import strip, walk, pretty, short, pat_binds
from . import e1, e4
from .extract import extract, Unrecognised

DATA = "tensor::Data::"
RANKS = ["Single", "Double", "Triple", "Quadruple"]


def data_match(fn_body, into_closures=False):
    """The first `match` (pre-order) at least one of whose arms destructures tensor::Data::*"""
    for x in walk(fn_body, into_closures):
        if x.get("k") == "match" and x.get("src") == "Normal":
            for a in x["arms"]:
                if _variants(a["pat"]):
                    return x
    return None


def _variants(p):
    """list of (variant name, [bindings]) for a pattern that is Data::X(b) or a tuple of such (through refs)"""
    while p.get("k") in ("ref", "deref"):
        p = p["p"]
    if p.get("k") == "tstruct" and p["path"].startswith(DATA):
        return [(p["path"][len(DATA):], pat_binds(p))]
    if p.get("k") == "tuple":
        out = []
        for q in p["ps"]:
            v = _variants(q)
            if not v:
                return []
            out += v
        return out
    return []


def rank_arms(m, names=None):
    """-> list of dict(rank, arm, roots{hid: posname}, mixed)"""
    out = []
    for a in m["arms"]:
        vs = _variants(a["pat"])
        if not vs:
            continue
        ranks = {v for v, _ in vs}
        roots = {}
        for i, (v, binds) in enumerate(vs):
            if len(binds) != 1:
                continue
            nm = names[i] if names and i < len(names) else "r%d" % i
            roots[binds[0][1]] = nm
        out.append(dict(rank=vs[0][0], arm=a, roots=roots, mixed=len(ranks) > 1, nroots=len(vs), guard=a.get("guard") is not None))
    return out


def arm_semantics(crate, ra, init=None, env=None):
    """Per-element stores of a rank arm: list of (guards, store) plus the extraction result."""
    r = extract(crate, ra["arm"]["body"], ra["roots"])
    sym = e1.Sym(crate, r.cellname(crate), init=init, env=env)
    return sym.run(r.body), r


def stores_equal(a, b):
    """Compare two lists of (guards, store)."""
    da = {tuple(sorted(g)): st for g, st in a}
    db = {tuple(sorted(g)): st for g, st in b}
    if set(da) != set(db):
        return False, "guard valuations differ: %s vs %s" % (sorted(da), sorted(db))
    for g in da:
        sa, sb = da[g], db[g]
        if set(sa) != set(sb):
            return False, "under %s cells written differ: %s vs %s" % (list(g), sorted(sa), sorted(sb))
        for cell in sa:
            if sa[cell] != sb[cell]:
                return False, "under %s cell `%s`: %s  vs  %s" % (list(g) or "no guard", cell, sa[cell], sb[cell])
    return True, ""


def fn_level_env(crate, fn, upto=None, hook=None):
    """Normalise the scalar `let`s at the top level of fn (before node `upto`) into an env hid -> Rat."""
    env = {}
    b = fn["body"]
    while b.get("k") == "blk":
        b = b["b"]
    N = e1.Norm(crate, env)
    N.reduce_hook = hook
    for s in b["stmts"]:
        if upto is not None and (s is upto or any(x is upto for x in walk(s))):
            break
        if s.get("k") == "let" and s["pat"].get("k") == "bind" and s["init"] is not None:
            ty = (crate.types[s["pat"]["t"]] or "").lstrip("&")
            if ty in ("f32", "f64", "usize", "i32", "u64", "bool"):
                try:
                    N.env = env
                    env[s["pat"]["hid"]] = N.norm(s["init"])
                except ValueError:
                    pass
            elif ty.startswith("std::option::Option<") and "Mut)" not in str(s["pat"].get("mode")):
                # `let decay = self.decay;`: an immutable alias of an optional configuration field
                i0 = strip(s["init"])
                if i0.get("k") == "field" and strip(i0["b"]).get("k") == "local":
                    try:
                        env[s["pat"]["hid"]] = e1.Rat.atom(e1.Norm(crate, env).place_name(i0))
                    except ValueError:
                        pass
    return env


def param_atom(fn, i):
    p = fn["params"][i]
    while p.get("k") in ("ref", "deref"):
        p = p["p"]
    return e1.Rat.atom(p["name"])


def scrut_names(crate, m):
    """Name the components of a `match (&mut a.data, &b.data, &mut self.f[i][j][k].data)` scrutinee.

    -> list of dict(name, node, index) ; name is the root place with indices removed (`values`, `self.velocity`)."""
    s = strip(m["scrut"])
    comps = s["xs"] if s.get("k") == "tup" else [s]
    out = []
    for comp in comps:
        n = strip(comp)
        if n.get("k") == "field" and n["f"] == "data":
            n = strip(n["b"])
        idx = []
        while n.get("k") == "index":
            idx.append(n["i"])
            n = strip(n["b"])
        idx.reverse()
        try:
            name = e1.Norm(crate).place_name(n)
        except ValueError:
            name = pretty(n)
        out.append(dict(name=name, node=n, index=idx))
    return out


def guarded_arms(ctx, rule, fn, m, inst):
    """A rank arm with a match guard takes some inputs away from the general arm of that rank: report it."""
    bad = False
    for a in m["arms"]:
        if a.get("guard") is not None and _variants(a["pat"]):
            bad = True
            ctx.bad(rule, "%s:%s:guarded-arm" % (inst, _variants(a["pat"])[0][0]), "rank-arm-with-guard:" + short(pretty(a["guard"]), 60), ctx.crate.loc(fn, a["body"]),
                    "a `%s` arm guarded by `%s` handles part of the inputs of that rank differently from the general arm" % (_variants(a["pat"])[0][0], short(pretty(a["guard"]), 80)))
    # the dispatch must be what decides the result: no path returns before reaching it (an early `return self` /
    # `return default` for some parameter values would bypass every arm)
    from . import e4 as _e4
    outs = _e4.outcomes(ctx.crate, fn["body"], lambda n: n is m)
    skipped = sorted({str(k[0]) for (k, cnt) in outs if cnt == 0})
    if skipped:
        bad = True
        ctx.bad(rule, "%s:dispatch-always-reached" % inst, "returns-before-rank-dispatch:" + ",".join(skipped), ctx.crate.loc(fn, m),
                "some non-panicking paths through %s leave the function (%s) without reaching the rank dispatch: for those inputs the "
                "element-wise definition is not applied" % (fn["path"], ",".join(skipped)))
    return bad


def full_env(crate, fn, base=None):
    """E1 env of every immutable scalar `let` in fn (in source order), on top of `base` (e.g. loop variables)."""
    env = dict(base or {})
    for s in walk(fn["body"]):
        if s.get("k") == "let" and s["pat"].get("k") == "bind" and s.get("init") is not None and "Mut" not in s["pat"].get("mode", ""):
            ty = (crate.types[s["pat"]["t"]] or "").lstrip("&")
            if ty in ("f32", "f64", "usize", "i32", "u64", "bool") and s["pat"]["hid"] not in env:
                try:
                    env[s["pat"]["hid"]] = e1.Norm(crate, env).norm(s["init"])
                except ValueError:
                    pass
    return env
