"""E6: guarded effect summaries (abstract execution of orchestration code to canonical terms).

Dispatch-heavy functions (Network::_forward, Feedback::forward, the loop block of Network::forward, the accuracy
selection in validate) are not arithmetic: what matters is *which* layer method is applied to *which* value and
*where* each result is recorded, per enum variant.  E6 executes a HIR body abstractly:

  * values are canonical terms (nested tuples): parameters, calls, fields, indices, tuples/projections, enum
    constructors and payloads; `clone`, references and derefs are transparent; Some(x).unwrap() = x;
    last() of a vector just pushed to is that element; commutative operators are sorted;
  * control flow forks the path: every `if`, `if let`, `match` arm, let-else adds a fact (term, polarity) to the
    path condition; `!c`, `a && b` (true) and `a || b` (false) are split into their atoms;
  * effects are recorded per path in order: push / set / in-place mutation through a `&mut` receiver or argument;
  * a loop (or a closure handed to an iterator adaptor) is summarised, not unrolled: locals it mutates are havocked
    to `loopin(name)`, the element pattern is bound to `elem(iter)`, the body is executed once, and the loop becomes
    ONE effect carrying the body's paths;  afterwards those locals read `loopout(name)`;
  * crate-new helper functions were already inlined by sa/inline.py; their `return` is a break to a labelled block.

The result is a list of paths (condition, effects, exit, value).  Rules state their obligations as queries on this
summary (e.g. "on the path where the element is Layer::Dense(p): preactivated receives forward(p, X).0"), which is
independent of statement order between unrelated effects, of temporaries, of whether pushes are written in each arm
or once after the match, of `if let` vs `match`, of guard-clause vs nested style.  No concrete value is computed and
no solver is involved: it is an abstract interpretation over a free term algebra.
"""
from .hir import strip, pretty, pat_binds, walk, short
from .core import Unestablished

MAXPATHS = 4000
TRANSPARENT_METHODS = {"clone", "to_owned", "as_ref", "as_mut", "borrow", "borrow_mut", "to_vec", "into", "iter", "iter_mut",
                       "into_iter", "copied", "cloned", "as_slice", "as_mut_slice"}
SHARED_VIEW_METHODS = {"iter", "clone", "to_owned", "as_ref", "borrow", "to_vec", "copied", "cloned", "as_slice", "into_iter", "chunks",
                       "chunks_exact", "windows", "keys", "values", "get", "first", "last", "len", "par_iter", "par_chunks"}
COMMUT = {"Add", "Mul", "Eq", "Ne", "And", "Or", "BitAnd", "BitOr", "BitXor"}
SWAP = {"Gt": "Lt", "Ge": "Le"}


class Path:
    __slots__ = ("env", "pc", "eff", "exit", "val")

    def __init__(self, env, pc=(), eff=(), exit=None, val=("unit",)):
        self.env, self.pc, self.eff, self.exit, self.val = env, pc, eff, exit, val

    def fork(self, **kw):
        p = Path(dict(self.env), self.pc, self.eff, self.exit, self.val)
        for k, v in kw.items():
            setattr(p, k, v)
        return p


def show(t, depth=0):
    """compact rendering of a term"""
    if not isinstance(t, tuple):
        return str(t)
    if not t:
        return "()"
    k = t[0]
    s = show
    if k == "p":
        return t[1]
    if k == "lit":
        return str(t[1])
    if k == "call":
        return "%s(%s)" % (t[1].split("::")[-1] if depth > 3 else t[1], ", ".join(s(a, depth + 1) for a in t[2]))
    if k == "field":
        return "%s.%s" % (s(t[1], depth + 1), t[2])
    if k == "idx":
        return "%s[%s]" % (s(t[1], depth + 1), s(t[2], depth + 1))
    if k == "tup":
        return "(" + ", ".join(s(a, depth + 1) for a in t[1]) + ")"
    if k == "proj":
        return "%s.%s" % (s(t[1], depth + 1), t[2])
    if k == "var":
        return "%s(%s)" % (t[1].split("::")[-1], ", ".join(s(a, depth + 1) for a in t[2])) if t[2] else t[1].split("::")[-1]
    if k == "payload":
        return "%s@%s.%d" % (s(t[1], depth + 1), t[2].split("::")[-1], t[3])
    if k == "bin":
        return "(%s %s %s)" % (s(t[2], depth + 1), t[1], s(t[3], depth + 1))
    if k == "un":
        return "%s(%s)" % (t[1], s(t[2], depth + 1))
    if k == "elem":
        return "elem#%s(%s)" % (t[2], s(t[1], depth + 1))
    if k in ("loopin", "loopout"):
        return "%s(%s#%s)" % (k, t[1], t[2])
    if k == "pushed":
        return "%s+[%s]" % (s(t[1], depth + 1), s(t[2], depth + 1))
    if k == "upd":
        return "%s<%s(%s)>" % (s(t[1], depth + 1), t[2].split("::")[-1], ", ".join(s(a, depth + 1) for a in t[3]))
    if k == "vec":
        return "vec![" + ", ".join(s(a, depth + 1) for a in t[1]) + "]"
    if k == "closure":
        return "closure#%s" % (t[1],)
    if k == "cast":
        return "(%s as %s)" % (s(t[1], depth + 1), t[2])
    if k == "struct":
        return "%s{%s}" % (t[1].split("::")[-1], ", ".join("%s: %s" % (a, s(b, depth + 1)) for a, b in t[2]))
    if k == "is":
        return "%s is %s" % (s(t[1], depth + 1), t[2].split("::")[-1])
    return "%s(%s)" % (k, ", ".join(s(a, depth + 1) for a in t[1:]))


_STD_MUTATORS = ("push", "pop", "insert", "remove", "swap_remove", "extend", "extend_from_slice", "append", "clear", "truncate", "resize", "drain", "retain",
                 "reverse", "swap", "sort", "sort_by", "sort_unstable", "fill", "rotate_left", "rotate_right", "dedup", "split_off", "take", "replace", "get_or_insert_with",
                 "entry", "or_insert", "or_insert_with")


def mk_field(v, f):
    """field `f` of v: a struct literal's own component when v is one"""
    v0 = v
    while isinstance(v0, tuple) and v0 and v0[0] == "un" and v0[1] == "Deref":
        v0 = v0[2]
    if isinstance(v0, tuple) and v0 and v0[0] == "struct":
        d = dict(v0[2])
        if f in d:
            return d[f]
    return ("field", v, f)


def mk_bin(op, l, r):
    if op == "Ne":                      # one spelling for (in)equality: a != b is !(a == b)
        return ("un", "Not", mk_bin("Eq", l, r))
    if op in SWAP:
        op, l, r = SWAP[op], r, l
    if op in COMMUT and repr(r) < repr(l):
        l, r = r, l
    return ("bin", op, l, r)


def mk_proj(base, i):
    if isinstance(base, tuple) and base and base[0] == "tup" and i < len(base[1]):
        return base[1][i]
    return ("proj", base, i)


def mk_call(callee, args):
    name = callee.rsplit("::", 1)[-1]
    if name in ("Some", "Ok") and callee.startswith(("std::prelude", "std::option", "core::option", "std::result", "core::result")) and len(args) == 1:
        return ("var", "Option::Some" if name == "Some" else "Result::Ok", tuple(args))
    return ("call", callee, tuple(args))


def mk_mcall(callee, name, recv, args):
    if name in TRANSPARENT_METHODS and not args:
        return recv
    if name in ("unwrap", "expect") and isinstance(recv, tuple) and recv[0] == "var" and recv[1] in ("Option::Some", "Result::Ok"):
        return recv[2][0]
    if name == "last" and not args and isinstance(recv, tuple) and recv[0] == "pushed":
        return ("var", "Option::Some", (recv[2],))
    if name == "last" and not args and isinstance(recv, tuple) and recv[0] == "vec" and recv[1]:
        return ("var", "Option::Some", (recv[1][-1],))
    return ("call", callee, (recv,) + tuple(args))


def split_cond(term, pol):
    """atoms of a condition known to have truth value pol"""
    if isinstance(term, tuple) and term:
        if term[0] == "un" and term[1] == "Not":
            return split_cond(term[2], not pol)
        if term[0] == "bin" and ((term[1] == "And" and pol) or (term[1] == "Or" and not pol)):
            return split_cond(term[2], pol) + split_cond(term[3], pol)
    return [(term, pol)]


class Exec:
    def __init__(self, crate, fn, param_names=None):
        self.c = crate
        self.fn = fn
        self.closures = {}
        self.payload_alias = {}     # hid of a pattern binding -> (hid of the local holding the matched Option/enum value, payload position)
        self.npaths = 0
        self.loop_summaries = {}

    # ------------------------------------------------------------------ entry
    def entry(self):
        env = {}
        for i, p in enumerate(self.fn.get("params") or []):
            for (nm, hid) in pat_binds(p):
                env[hid] = ("p", nm)
        return Path(env)

    def run_fn(self):
        return self.eval(self.fn["body"], self.entry())

    # ------------------------------------------------------------------ helpers
    def _root_local(self, n, for_mutation=True):
        """the local a place / view expression is rooted in; None when the value is a copy or a shared view
        (a `&mut` method on `x.iter()` or `x.clone()` advances / changes a temporary, not x)"""
        n = strip(n)
        while n is not None and n.get("k") in ("field", "index", "mcall"):
            if n["k"] == "mcall":
                if for_mutation and n["name"] in SHARED_VIEW_METHODS:
                    return None
                if n["name"] in TRANSPARENT_METHODS or n["name"] in ("unwrap", "last_mut", "get_mut", "first_mut", "expect"):
                    n = strip(n["recv"])
                    continue
                return None
            n = strip(n["b"])
        if n is not None and n.get("k") == "local":
            return n
        return None

    def _mutated_locals(self, body):
        """hids of locals assigned or mutated through &mut inside body (syntactic, conservative)"""
        out = {}
        for x in walk(body):
            k = x.get("k")
            if k in ("assign", "assignop"):
                r = self._root_local(x["l"])
                if r is not None:
                    out[r["hid"]] = r["name"]
            elif k == "mcall":
                t = self.c.tya(x["recv"]) or ""
                if t.startswith("&mut"):
                    r = self._root_local(x["recv"])
                    if r is not None:
                        out[r["hid"]] = r["name"]
                for a in x["args"]:
                    self._mut_arg(a, out)
            elif k == "call":
                for a in x["args"]:
                    self._mut_arg(a, out)
        # an element changed through a mutable walk changes the sequence walked: `for v in c.iter_mut() { *v = .. }`, `c.iter_mut().for_each(|v| ..)`,
        # nested (`for row in m.iter_mut() { for v in row.iter_mut() { .. } }`)
        changed = True
        while changed:
            changed = False
            for x in walk(body):
                pats, src = None, None
                if x.get("k") == "for":
                    pats, src = [x["pat"]], x["iter"]
                elif x.get("k") == "mcall" and x.get("name") in ("for_each", "try_for_each", "map", "filter_map") and x["args"] and strip(x["args"][0]) is not None \
                        and strip(x["args"][0]).get("k") == "closure":
                    pats, src = strip(x["args"][0])["params"], x["recv"]
                if pats is None:
                    continue
                if not any(h in out for p_ in pats for (_, h) in pat_binds(p_)):
                    continue
                r = self._mutable_view_root(src)
                if r is not None and r["hid"] not in out:
                    out[r["hid"]] = r["name"]
                    changed = True
        return out

    def _mutable_view_root(self, src):
        """the local whose elements a loop source hands out mutably (`c.iter_mut()`, `&mut c`, `c.iter_mut().enumerate()/zip(..)/rev()..`), else None"""
        n = strip(src)
        mutable = False
        for _ in range(8):
            if n is None:
                return None
            k = n.get("k")
            if k == "mcall":
                if n["name"] in ("iter_mut", "as_mut_slice", "chunks_mut", "chunks_exact_mut", "values_mut", "last_mut", "first_mut", "get_mut", "as_mut"):
                    mutable = True
                n = strip(n["recv"])
                continue
            if k == "ref":
                mutable = mutable or bool(n.get("mut"))
                n = strip(n["x"])
                continue
            if k in ("field", "index"):
                n = strip(n["b"])
                continue
            if k == "un":
                n = strip(n["x"])
                continue
            break
        if n is not None and n.get("k") == "local":
            t = self.c.ty(n) or ""
            if mutable or t.startswith("&mut"):
                return n
        return None

    def _mut_arg(self, a, out):
        if a.get("k") == "ref" and a.get("mut"):
            r = self._root_local(a["x"])
            if r is not None:
                out[r["hid"]] = r["name"]
        else:
            t = self.c.ty(a) or ""
            if t.startswith("&mut") and a.get("k") == "local":
                pass   # a &mut binding passed on: the pointee is not a local we track by value

    def _panics(self, n):
        return n.get("mac") in ("panic", "unimplemented", "unreachable", "todo") or (("t" in n) and self.c.ty(n) == "!" and n.get("k") in ("call", "mcall"))

    # ------------------------------------------------------------------ patterns
    def bind(self, pat, val, st, refutable_ok=True):
        """-> (facts, env updates) ; facts = [(term, True)] needed for the pattern to match; None when it cannot match"""
        facts = []
        env = {}

        def rec(p, v):
            k = p.get("k")
            if k in ("ref", "deref"):
                return rec(p["p"], v)
            if k == "bind":
                env[p["hid"]] = v
                if p.get("sub"):
                    return rec(p["sub"], v)
                return True
            if k == "wild":
                return True
            if k == "tuple":
                for i, q in enumerate(p["ps"]):
                    if not rec(q, mk_proj(v, i)):
                        return False
                return True
            if k in ("tstruct", "ppath", "struct"):
                path = self._vpath(p["path"])
                is_enum = self._is_enum_variant(p["path"])
                if not is_enum:
                    subs = p.get("ps") or [q for _, q in p.get("fs", [])]
                    names = [str(i) for i in range(len(p.get("ps") or []))] or [a for a, _ in p.get("fs", [])]
                    for nm, q in zip(names, subs):
                        if not rec(q, mk_field(v, nm) if not nm.isdigit() else mk_proj(v, int(nm))):
                            return False
                    return True
                if isinstance(v, tuple) and v and v[0] == "call" and v[1] != path and self._is_enum_variant(v[1]) and v[1].rsplit("::", 1)[0] == path.rsplit("::", 1)[0]:
                    return False        # a value built by another constructor of the same enum
                if isinstance(v, tuple) and v and v[0] == "call" and v[1] == path and len(v[2]) == len(p.get("ps") or []) and not p.get("fs"):
                    v = ("var", path, v[2])
                if isinstance(v, tuple) and v and v[0] == "var":
                    if v[1] != path:
                        return False
                    for i, q in enumerate(p.get("ps") or []):
                        if not rec(q, v[2][i] if i < len(v[2]) else ("payload", v, path, i)):
                            return False
                    return True
                facts.append((("is", v, path), True))
                for i, q in enumerate(p.get("ps") or []):
                    if not rec(q, ("payload", v, path, i)):
                        return False
                for (a, q) in p.get("fs", []) or []:
                    if not rec(q, ("payload", v, path, a)):
                        return False
                return True
            if k == "plit":
                if str(p["v"]) == "true":
                    facts.append((v, True))                    # matching a bool against `true` is the bool itself
                elif str(p["v"]) == "false":
                    facts.append((("un", "Not", v), True))
                else:
                    facts.append((mk_bin("Eq", v, ("lit", p["v"])), True))
                return True
            if k == "or":
                facts.append((("matches", v, "|".join(sorted(self._vpath(q.get("path", "?")) for q in p["ps"]))), True))
                return True
            raise Unestablished("E6: pattern kind %s" % k)
        ok = rec(pat, val)
        if not ok:
            return None, {}
        return facts, env

    def _note_payload_aliases(self, pat, scrut_node, st):
        """`if let Some(x) = &mut opt` / `match &mut opt { Some(x) => .. }` with `opt` a local that holds a constructor value: x names the
        payload *inside* opt, so a change made through x is a change of opt (kept in step by `_propagate_alias`)."""
        r = self._root_local(scrut_node, for_mutation=False) if scrut_node is not None else None
        s0 = strip(scrut_node) if scrut_node is not None else None
        while s0 is not None and s0.get("k") in ("ref",):
            s0 = strip(s0["x"])
        while s0 is not None and s0.get("k") == "mcall" and s0.get("name") in ("as_mut", "as_ref", "as_deref_mut") and not s0["args"]:
            s0 = strip(s0["recv"])
        if r is None or s0 is None or s0.get("k") != "local" or s0["hid"] != r["hid"]:
            return
        cur = st.env.get(r["hid"])
        if not (isinstance(cur, tuple) and cur and cur[0] == "var"):
            return
        p = pat
        while p is not None and p.get("k") in ("ref", "deref"):
            p = p["p"]
        if p is None or p.get("k") != "tstruct":
            return
        for i, q in enumerate(p.get("ps") or []):
            while q is not None and q.get("k") in ("ref", "deref"):
                q = q["p"]
            if q is not None and q.get("k") == "bind" and not q.get("sub"):
                self.payload_alias[q["hid"]] = (r["hid"], i)

    def _propagate_alias(self, root, q):
        """after a change of the local `root` (a payload binding): store the new payload back into the value it is part of"""
        if root is None or root["hid"] not in self.payload_alias:
            return
        oh, i = self.payload_alias[root["hid"]]
        cur = q.env.get(oh)
        if isinstance(cur, tuple) and cur and cur[0] == "var" and i < len(cur[2]):
            args = list(cur[2])
            args[i] = q.env.get(root["hid"], args[i])
            q.env[oh] = ("var", cur[1], tuple(args))

    def _vpath(self, path):
        if path.endswith("::Some") and ("prelude" in path or "option" in path):
            return "Option::Some"
        if path.endswith("::None") and ("prelude" in path or "option" in path):
            return "Option::None"
        if path.endswith("::Ok") and ("prelude" in path or "result" in path):
            return "Result::Ok"
        if path.endswith("::Err") and ("prelude" in path or "result" in path):
            return "Result::Err"
        return path

    def _is_enum_variant(self, path):
        if self._vpath(path) != path:
            return True
        parent = path.rsplit("::", 1)[0]
        a = self.c.adts.get(parent)
        return a is not None and a.get("kind", "enum") == "enum" and len(a.get("variants", [])) >= 1 and any(v["name"] == path.rsplit("::", 1)[-1] for v in a["variants"]) and parent != path

    def assume(self, st, facts):
        """extend the path condition; returns None when it contradicts what is already known"""
        pc = list(st.pc)
        for (t, pol) in facts:
            for (a, p2) in split_cond(t, pol):
                if (a, not p2) in pc:
                    return None
                if isinstance(a, tuple) and len(a) == 2 and a[0] == "lit" and str(a[1]) in ("true", "false"):
                    if (str(a[1]) == "true") != p2:
                        return None          # a literal condition decides itself
                    continue
                # two different variants of the same scrutinee cannot both hold
                if p2 and isinstance(a, tuple) and a[0] == "is":
                    for (b, p3) in pc:
                        if p3 and isinstance(b, tuple) and b[0] == "is" and b[1] == a[1] and b[2] != a[2]:
                            return None
                if (a, p2) not in pc:
                    pc.append((a, p2))
        return st.fork(pc=tuple(pc))

    # ------------------------------------------------------------------ evaluation
    def seq(self, nodes, st):
        """evaluate nodes in order; returns paths (value = value of the last node)"""
        paths = [st]
        for n in nodes:
            nxt = []
            for p in paths:
                if p.exit is not None:
                    nxt.append(p)
                else:
                    nxt.extend(self.eval(n, p))
            paths = nxt
            self._cap(paths)
        return paths

    def _cap(self, paths):
        if len(paths) > MAXPATHS:
            raise Unestablished("E6: more than %d paths" % MAXPATHS)

    def evals(self, nodes, st):
        """evaluate pure-ish argument lists: returns [(path, [values])]"""
        acc = [(st, [])]
        for n in nodes:
            nxt = []
            for (p, vs) in acc:
                if p.exit is not None:
                    nxt.append((p, vs + [("unit",)]))
                    continue
                for q in self.eval(n, p):
                    nxt.append((q, vs + [q.val]))
            acc = nxt
        return acc

    def eval(self, n, st):
        """-> list of Paths, each with .val set"""
        if n is None:
            return [st.fork(val=("unit",))]
        k = n.get("k")
        if k == "lit":
            return [st.fork(val=("lit", n["v"]))]
        if k == "local":
            return [st.fork(val=st.env.get(n["hid"], ("free", n["name"])))]
        if k == "path":
            d = n["def"]
            vp = self._vpath(d)
            if vp != d or self._is_enum_variant(d):
                return [st.fork(val=("var", vp, ()))]
            return [st.fork(val=("path", d))]
        if k == "ref" or (k == "un" and n["op"] == "Deref"):
            return self.eval(n["x"], st)
        if k == "cast":
            return [p.fork(val=("cast", p.val, self.c.ty(n) or "?")) if p.exit is None else p for p in self.eval(n["x"], st)]
        if k == "un":
            out = []
            for p in self.eval(n["x"], st):
                if p.exit is None:
                    v = p.val
                    if n["op"] == "Not" and isinstance(v, tuple) and v[0] == "un" and v[1] == "Not":
                        p = p.fork(val=v[2])
                    else:
                        p = p.fork(val=("un", n["op"], v))
                out.append(p)
            return out
        if k == "field":
            out = []
            for p in self.eval(n["b"], st):
                if p.exit is None:
                    f = n["f"]
                    p = p.fork(val=mk_proj(p.val, int(f)) if f.isdigit() else mk_field(p.val, f))
                out.append(p)
            return out
        if k == "index":
            out = []
            for (p, vs) in self.evals([n["b"], n["i"]], st):
                out.append(p if p.exit is not None else p.fork(val=("idx", vs[0], vs[1])))
            return out
        if k == "tup":
            return [p if p.exit is not None else p.fork(val=("tup", tuple(vs))) for (p, vs) in self.evals(n["xs"], st)]
        if k == "array":
            return [p if p.exit is not None else p.fork(val=("vec", tuple(vs))) for (p, vs) in self.evals(n["xs"], st)]
        if k == "repeat":
            return [p if p.exit is not None else p.fork(val=("repeat", p.val)) for p in self.eval(n["x"], st)]
        if k == "struct":
            names = [a for a, _ in n["fs"]]
            if n.get("base") is not None:
                # `S { f: e, ..base }`: the written fields, then the base; every other field of S is the base's
                path_ = n["path"][5:] if str(n["path"]).startswith("Self:") else n["path"]
                adt_ = self.c.adts.get(path_)
                if adt_ is None or not adt_.get("variants"):
                    raise Unestablished("E6: struct update of an unknown type %s" % n["path"])
                all_f = [f_["name"] for f_ in adt_["variants"][0]["fields"]]
                out_ = []
                for (p, vs) in self.evals([b for _, b in n["fs"]] + [n["base"]], st):
                    if p.exit is not None:
                        out_.append(p)
                        continue
                    given = dict(zip(names, vs[:-1]))
                    out_.append(p.fork(val=("struct", n["path"], tuple((f_, given[f_] if f_ in given else mk_field(vs[-1], f_)) for f_ in all_f))))
                return out_
            return [p if p.exit is not None else p.fork(val=("struct", n["path"], tuple(zip(names, vs)))) for (p, vs) in self.evals([b for _, b in n["fs"]], st)]
        if k == "bin":
            if n["op"] in ("And", "Or"):
                # short-circuit: the right operand is evaluated only when needed; operands here are effect-free
                pass
            return [p if p.exit is not None else p.fork(val=mk_bin(n["op"], vs[0], vs[1])) for (p, vs) in self.evals([n["l"], n["r"]], st)]
        if k == "blk":
            paths = self.block(n["b"], st)
            if n.get("lbl") is not None:
                out = []
                for p in paths:
                    if p.exit is not None and p.exit[0] == "break" and p.exit[1] == n["lbl"]:
                        p = p.fork(exit=None, val=p.exit[2])
                    out.append(p)
                return out
            return paths
        if k == "block":
            return self.block(n, st)
        if k == "let":
            return self.let(n, st)
        if k == "letx":
            raise Unestablished("E6: `let` expression outside a condition")
        if k == "if":
            return self.if_(n, st)
        if k == "match":
            return self.match(n, st)
        if k in ("for", "loop"):
            return self.loop(n, st)
        if k == "closure":
            self.closures[n["id"]] = n
            return [st.fork(val=("closure", n["id"]))]
        if k == "assign":
            return self.assign(n, st, None)
        if k == "assignop":
            return self.assign(n, st, n["op"].replace("Assign", ""))
        if k == "ret":
            return [p if p.exit is not None else p.fork(exit=("return", p.val)) for p in self.eval(n["v"], st)]
        if k == "break":
            return [p if p.exit is not None else p.fork(exit=("break", n["label"], p.val)) for p in self.eval(n["v"], st)]
        if k == "continue":
            return [st.fork(exit=("continue", n["label"]))]
        if k == "call":
            return self.call(n, st)
        if k == "mcall":
            return self.mcall(n, st)
        raise Unestablished("E6: node kind %s: %s" % (k, short(pretty(n), 60)))

    def block(self, b, st):
        nodes = list(b["stmts"]) + ([b["tail"]] if b["tail"] is not None else [])
        if not nodes:
            return [st.fork(val=("unit",))]
        paths = self.seq(nodes, st)
        if b["tail"] is None:
            paths = [p if p.exit is not None else p.fork(val=("unit",)) for p in paths]
        return paths

    def let(self, n, st):
        if n.get("init") is None:
            return [st.fork(val=("unit",))]
        out = []
        for p in self.eval(n["init"], st):
            if p.exit is not None:
                out.append(p)
                continue
            facts, env = self.bind(n["pat"], p.val, p)
            if facts is None:
                # cannot match: only the else branch
                if n.get("els") is not None:
                    out.extend(self.eval(n["els"], p))
                continue
            q = self.assume(p, facts) if facts else p
            if q is not None:
                q = q.fork(val=("unit",))
                q.env.update(env)
                out.append(q)
            if facts and n.get("els") is not None:
                neg = self.assume(p, [(("not-all",) + tuple(f for f, _ in facts), True)] if len(facts) > 1 else [(facts[0][0], False)])
                if neg is not None:
                    out.extend(self.eval(n["els"], neg))
        return out

    def cond_paths(self, c, st):
        """evaluate a condition: -> [(path, truth)]"""
        c0 = strip(c)
        if c0 is not None and c0.get("k") == "letx":
            out = []
            for p in self.eval(c0["init"], st):
                if p.exit is not None:
                    out.append((p, None))
                    continue
                facts, env = self.bind(c0["pat"], p.val, p)
                if facts is not None:
                    self._note_payload_aliases(c0["pat"], c0["init"], p)
                if facts is None:
                    out.append((p, False))
                    continue
                if not facts:
                    q = p.fork()
                    q.env.update(env)
                    out.append((q, True))
                    continue
                q = self.assume(p, facts)
                if q is not None:
                    q.env.update(env)
                    out.append((q, True))
                neg = self.assume(p, [(facts[0][0], False)] if len(facts) == 1 else [(("all",) + tuple(f for f, _ in facts), False)])
                if neg is not None:
                    out.append((neg, False))
            return out
        if c0 is not None and c0.get("k") == "bin" and c0["op"] in ("And", "Or") and any(y.get("k") == "letx" for y in walk(c0)):
            # let-chains: `a && let P = e`
            if c0["op"] != "And":
                raise Unestablished("E6: `||` with a let condition")
            out = []
            for (p, t) in self.cond_paths(c0["l"], st):
                if t is not True:
                    out.append((p, t))
                else:
                    out.extend(self.cond_paths(c0["r"], p))
            return out
        out = []
        for p in self.eval(c, st):
            if p.exit is not None:
                out.append((p, None))
                continue
            v = p.val
            if v == ("lit", "true"):
                out.append((p, True))
                continue
            if v == ("lit", "false"):
                out.append((p, False))
                continue
            for pol in (True, False):
                q = self.assume(p, [(v, pol)])
                if q is not None:
                    out.append((q, pol))
        return out

    def if_(self, n, st):
        out = []
        for (p, t) in self.cond_paths(n["c"], st):
            if t is None:
                out.append(p)
            elif t:
                out.extend(self.eval(n["th"], p))
            elif n["el"] is not None:
                out.extend(self.eval(n["el"], p))
            else:
                out.append(p.fork(val=("unit",)))
        self._cap(out)
        return out

    def match(self, n, st):
        out = []
        for p0 in self.eval(n["scrut"], st):
            if p0.exit is not None:
                out.append(p0)
                continue
            sv = p0.val
            rest = [p0]
            for arm in n["arms"]:
                nxt = []
                for p in rest:
                    alts = arm["pat"]["ps"] if arm["pat"].get("k") == "or" else [arm["pat"]]
                    remaining = p
                    for alt in alts:
                        if remaining is None:
                            break
                        facts, env = self.bind(alt, sv, remaining)
                        if facts is not None:
                            self._note_payload_aliases(alt, n["scrut"], remaining)
                        if facts is None:
                            continue
                        q = self.assume(remaining, facts) if facts else remaining.fork()
                        if q is not None:
                            q.env.update(env)
                            if arm.get("guard") is not None:
                                for (g, t) in self.cond_paths(arm["guard"], q):
                                    if t is None:
                                        out.append(g)
                                    elif t:
                                        out.extend(self.eval(arm["body"], g))
                                    else:
                                        nxt.append(g)
                            else:
                                out.extend(self.eval(arm["body"], q))
                        if not facts:
                            remaining = None if arm.get("guard") is None else remaining
                            if arm.get("guard") is None:
                                break
                        else:
                            remaining = self.assume(remaining, [(facts[0][0], False)] if len(facts) == 1 else [(("all",) + tuple(f for f, _ in facts), False)])
                    if remaining is not None:
                        nxt.append(remaining)
                rest = nxt
                if not rest:
                    break
            # anything left falls off a non-exhaustive match: impossible in type-checked Rust
        self._cap(out)
        return out

    def assign(self, n, st, op):
        out = []
        for (p, vs) in self.evals([n["r"]], st):
            if p.exit is not None:
                out.append(p)
                continue
            r = vs[0]
            l = strip(n["l"])
            ps = self.eval(n["l"], p)
            for q in ps:
                if q.exit is not None:
                    out.append(q)
                    continue
                place = self.place(l, q)
                new = r if op is None else mk_bin(op, q.val, r)
                root = self._root_local(l)
                q = q.fork(eff=q.eff + (("set", place, new),), val=("unit",))
                if l.get("k") == "local":
                    q.env[l["hid"]] = new
                elif root is not None:
                    q.env[root["hid"]] = ("upd", q.env.get(root["hid"], ("free", root["name"])), "set:" + show(place), (new,))
                self._propagate_alias(root if root is not None else (l if l.get("k") == "local" else None), q)
                out.append(q)
        return out

    def place(self, l, st):
        """term naming the place (locals by name, not by their current value)"""
        l = strip(l)
        k = l.get("k")
        if k == "local":
            return ("local", l["name"])
        if k == "field":
            f = l["f"]
            b = self.place(l["b"], st)
            return ("proj", b, int(f)) if f.isdigit() else ("field", b, f)
        if k == "index":
            iv = self.eval(l["i"], st)
            return ("idx", self.place(l["b"], st), iv[0].val if iv else ("?",))
        if k == "mcall" and (l["name"] in TRANSPARENT_METHODS or l["name"] in ("unwrap", "expect", "last_mut", "get_mut", "first_mut")):
            b = self.place(l["recv"], st)
            if l["name"] in TRANSPARENT_METHODS or l["name"] in ("unwrap", "expect"):
                return b
            args = [self.eval(a, st)[0].val for a in l["args"]]
            return ("call", l["name"], (b,) + tuple(args))
        vs = self.eval(l, st)
        return vs[0].val if vs else ("?",)

    def call(self, n, st):
        if self._panics(n):
            return [st.fork(exit=("panic",))]
        callee = n.get("callee") or ""
        if (n.get("f") is not None and n["f"].get("mac") == "vec" or n.get("mac") == "vec") and not callee.endswith("from_elem"):
            # `vec![a, b, c]` (the list form; `vec![x; n]` is a plain from_elem call)
            arrs = []
            for a_ in n["args"]:
                stack_ = [a_]
                while stack_ and not arrs:
                    y_ = stack_.pop(0)
                    if isinstance(y_, dict):
                        if y_.get("k") == "array":
                            arrs.append(y_)
                            break
                        if y_.get("k") == "call" and (y_.get("callee") or "").endswith("from_elem"):
                            continue
                        stack_.extend(v_ for v_ in y_.values() if isinstance(v_, (dict, list)))
                    elif isinstance(y_, list):
                        stack_.extend(y_)
            if arrs:
                return [p if p.exit is not None else p.fork(val=("vec", tuple(vs))) for (p, vs) in self.evals(arrs[0]["xs"], st)]
        out = []
        for (p, vs) in self.evals(n["args"], st):
            if p.exit is not None:
                out.append(p)
                continue
            if not callee:
                fv = self.eval(n["f"], p)
                callee = show(fv[0].val) if fv else "?"
            muts = {}
            for a in n["args"]:
                self._mut_arg(a, muts)
            q = p.fork(val=mk_call(callee, vs))
            if muts:
                q.eff = q.eff + (("mutcall", callee, tuple(vs)),)
                for h, nm in muts.items():
                    q.env[h] = ("upd", q.env.get(h, ("free", nm)), callee, tuple(vs))
            q = self._closure_args(n, n["args"], vs, callee, None, q)
            out.append(q)
        return out

    def mcall(self, n, st):
        if self._panics(n):
            return [st.fork(exit=("panic",))]
        out = []
        name = n["name"]
        for (p, vs) in self.evals([n["recv"]] + list(n["args"]), st):
            if p.exit is not None:
                out.append(p)
                continue
            recv, args = vs[0], vs[1:]
            rt = self.c.tya(n["recv"]) or ""
            if not rt.startswith("&mut"):
                # a receiver node written by a normalisation pass may lack rustc's adjusted type: a crate method taking `&mut self`, or a std
                # mutator called on a receiver of unknown type, is a mutation all the same
                cf_ = self.c.fns.get(n["callee"][5:] if str(n.get("callee", "")).startswith("Self:") else n.get("callee"))
                if cf_ is not None and (cf_.get("inputs") or [""])[0].startswith("&mut"):
                    rt = "&mut (callee)"
                elif rt == "" and name in _STD_MUTATORS:
                    rt = "&mut (by name)"
            val = mk_mcall(n["callee"], name, recv, args)
            q = p.fork(val=val)
            if rt.startswith("&mut") and name not in TRANSPARENT_METHODS:
                place = self.place(n["recv"], p)
                root = self._root_local(n["recv"])
                if name == "push" and len(args) == 1:
                    q.eff = q.eff + (("push", place, args[0]),)
                    if root is not None and strip(n["recv"]).get("k") == "local":
                        q.env[root["hid"]] = ("pushed", recv, args[0])
                    elif root is not None:
                        q.env[root["hid"]] = ("upd", q.env.get(root["hid"], ("free", root["name"])), "push:" + show(place), tuple(args))
                elif name in ("iter_mut", "as_mut", "get_mut", "last_mut", "first_mut", "unwrap", "expect", "as_mut_slice"):
                    pass
                else:
                    q.eff = q.eff + (("mut", n["callee"], place, tuple(args), recv),)
                    if root is not None:
                        q.env[root["hid"]] = ("upd", q.env.get(root["hid"], ("free", root["name"])), n["callee"] + "@" + show(place), tuple(args))
                self._propagate_alias(root, q)
            muts = {}
            for a in n["args"]:
                self._mut_arg(a, muts)
            for h, nm in muts.items():
                q.env[h] = ("upd", q.env.get(h, ("free", nm)), n["callee"], tuple(vs))
            q = self._closure_args(n, n["args"], args, n["callee"], recv, q)
            out.append(q)
        return out

    def _closure_args(self, n, arg_nodes, arg_vals, callee, recv, st):
        """closures handed to a call may run any number of times: summarise them like loop bodies"""
        for a, v in zip(arg_nodes, arg_vals):
            a0 = strip(a)
            if a0 is None or a0.get("k") != "closure":
                continue
            cid = a0["id"]
            muts = self._mutated_locals(a0["body"])
            if n.get("k") == "mcall" and any(h in muts for p_ in a0["params"] for (_, h) in pat_binds(p_)):
                r_ = self._mutable_view_root(n["recv"])
                if r_ is not None:
                    muts[r_["hid"]] = r_["name"]
            body_st = st.fork(pc=(), eff=(), exit=None)
            for h, nm in muts.items():
                body_st.env[h] = ("loopin", nm, "cl%s" % cid)
            elem = ("elem", recv if recv is not None else ("call", callee, ()), "cl%s" % cid)
            for i, prm in enumerate(a0["params"]):
                facts, env = self.bind(prm, elem if len(a0["params"]) == 1 else ("proj", elem, i), body_st)
                body_st.env.update(env)
            paths = self.eval(a0["body"], body_st)
            summ = tuple((p.pc, p.eff, p.exit, p.val) for p in paths)
            self.loop_summaries["cl%s" % cid] = dict(kind="closure", callee=callee, recv=recv, paths=paths, node=a0)
            st = st.fork(eff=st.eff + (("loop", "cl%s" % cid, ("call", callee, (recv,) if recv is not None else ()), summ),))
            for h, nm in muts.items():
                st.env[h] = ("loopout", nm, "cl%s" % cid, st.env.get(h, ("free", nm)))
        return st

    def loop(self, n, st):
        out = []
        lid = n["loop_id"]
        its = self.eval(n["iter"], st) if n.get("k") == "for" else [st.fork(val=("forever",))]
        for p in its:
            if p.exit is not None:
                out.append(p)
                continue
            it = p.val
            muts = self._mutated_locals(n["body"])
            if n.get("k") == "for" and any(h in muts for (_, h) in pat_binds(n["pat"])):
                r_ = self._mutable_view_root(n["iter"])
                if r_ is not None:
                    muts[r_["hid"]] = r_["name"]
            body_st = p.fork(pc=(), eff=(), exit=None)
            for h, nm in muts.items():
                body_st.env[h] = ("loopin", nm, lid)
            if n.get("k") == "for":
                facts, env = self.bind(n["pat"], ("elem", it, lid), body_st)
                body_st.env.update(env)
            paths = self.eval(n["body"], body_st)
            self._cap(paths)
            summ = tuple((q.pc, q.eff, q.exit, q.val) for q in paths)
            self.loop_summaries[lid] = dict(kind=n["k"], iter=it, paths=paths, node=n, entry=p)
            q = p.fork(eff=p.eff + (("loop", lid, it, summ),), val=("unit",))
            for h, nm in muts.items():
                q.env[h] = ("loopout", nm, lid, p.env.get(h, ("free", nm)))
            for h, nm in muts.items():
                if h in self.payload_alias:
                    self._propagate_alias({"hid": h, "name": nm}, q)
            # a `return` inside the loop may leave the function: keep that possibility as a separate path
            for bp in paths:
                if bp.exit is not None and bp.exit[0] == "return":
                    out.append(p.fork(eff=p.eff + (("loop", lid, it, summ),), exit=bp.exit, pc=p.pc + tuple(x for x in bp.pc if x not in p.pc)))
            out.append(q)
        return out


# ---------------------------------------------------------------------------------------------- queries
def facts_of(path):
    return set(path.pc if hasattr(path, "pc") else path[0])


def variant_of(path, scrut=None):
    """{scrutinee term: variant path} known true on this path"""
    out = {}
    for (t, pol) in (path.pc if hasattr(path, "pc") else path[0]):
        if pol and isinstance(t, tuple) and t and t[0] == "is":
            out[t[1]] = t[2]
    return out


def effects(path, kind=None):
    eff = path.eff if hasattr(path, "eff") else path[1]
    return [e for e in eff if kind is None or e[0] == kind]


def pushes_to(path, name):
    return [e[2] for e in effects(path, "push") if e[1] == ("local", name)]


def contains(t, sub):
    if t == sub:
        return True
    if isinstance(t, tuple):
        return any(contains(x, sub) for x in t)
    return False


def find_terms(t, pred, acc=None):
    acc = [] if acc is None else acc
    if isinstance(t, tuple):
        if t and isinstance(t[0], str) and pred(t):
            acc.append(t)
        for x in t:
            find_terms(x, pred, acc)
    return acc


def is_call(t, name, nargs=None):
    """args of a call term whose callee's last path segment is `name`, else None"""
    if isinstance(t, tuple) and t and t[0] == "call" and t[1].rsplit("::", 1)[-1] == name and (nargs is None or len(t[2]) == nargs):
        return t[2]
    return None


def entry_of(t):
    """value a local had when the loop that produced `loopout(..)` was entered"""
    return t[3] if isinstance(t, tuple) and len(t) == 4 and t[0] == "loopout" else None


def root_name(t):
    """name of the local a (possibly updated) collection value derives from"""
    while isinstance(t, tuple) and t:
        if t[0] in ("loopin", "loopout"):
            return t[1]
        if t[0] in ("upd", "pushed"):
            t = t[1]
            continue
        if t[0] == "free":
            return t[1]
        break
    return None


def range_of(t):
    """(start, exclusive end) of a Range / RangeInclusive term"""
    if isinstance(t, tuple) and t and t[0] == "struct" and t[1].endswith("ops::Range"):
        d = dict(t[2])
        return d.get("start"), d.get("end")
    if isinstance(t, tuple) and t and t[0] == "call" and "RangeInclusive" in t[1] and t[1].endswith("::new") and len(t[2]) == 2:
        return t[2][0], mk_bin("Add", t[2][1], ("lit", "1"))
    return None


# in-place changes that the rules account for explicitly before comparing structure (they look for the `upd` themselves: the tensor primitives of the
# accumulation rules, `remove` / `append` of the record lists, field writes, dropout, the optimizer step) - and length-only bookkeeping.
# Any other in-place change (`fill`, `reverse`, `swap`, `clear`, `truncate`, `sort`, ..) stays visible, so that a comparison with the expected
# value fails instead of silently ignoring it (found by probing: `y.fill(0.5)` after the soft-max normalisation went unnoticed).
_STRIPPABLE = ("add_inplace", "sub_inplace", "mul_inplace", "mean_inplace", "div_scalar_inplace", "remove", "append", "extend", "extend_from_slice", "dropout", "update",
               "reserve", "reserve_exact", "shrink_to_fit", "shrink_to", "hadamard", "clamp")


_REORDERING = ("reverse", "swap", "rotate_left", "rotate_right", "sort", "sort_by", "sort_by_key", "sort_unstable", "sort_unstable_by", "fill", "clear", "truncate",
               "remove", "swap_remove", "insert", "drain", "retain", "dedup", "pop", "split_off", "resize")


def list_tampering(t):
    """names of in-place list operations (reordering / dropping / overwriting entries) recorded anywhere in the term t"""
    return sorted({str(u[2]).split("@")[0].rsplit("::", 1)[-1] for u in find_terms(t, lambda u_: u_[0] == "upd")
                   if str(u[2]).split("@")[0].rsplit("::", 1)[-1] in _REORDERING})


_GROWTH = ("extend", "extend_from_slice", "append", "push", "reserve", "reserve_exact", "shrink_to_fit")


def inplace_changes(t):
    """kinds of the in-place changes recorded in the term t other than appending entries (an entry assigned in straight-line code `set`, a field
    written, any `&mut self` method other than push/extend/append ..)"""
    out = set()
    for u in find_terms(t, lambda u_: u_[0] == "upd"):
        k = str(u[2]).split("@")[0]
        if k.startswith("set:") and "[" not in k:
            k = "field-assignment"          # a whole field / local replaced, not an entry of a list
        else:
            k = k.split(":")[0] if k.startswith(("set:", "push:", "field:")) else k.rsplit("::", 1)[-1]
        if k not in _GROWTH:
            out.add(k)
    return sorted(out)


def strip_upd(t):
    """drop `upd` wrappers of the kinds listed in _STRIPPABLE (and field writes) for structural comparison"""
    if isinstance(t, tuple):
        if t and t[0] == "upd":
            nm = str(t[2]).split("@")[0]
            if nm.startswith(("set:", "push:")) or nm.rsplit("::", 1)[-1] in _STRIPPABLE:
                return strip_upd(t[1])
            return ("upd", strip_upd(t[1])) + tuple(t[2:])
        return tuple(strip_upd(x) for x in t)
    return t


def elementwise_sequence(E, val, allow=None):
    """`val` is a sequence built element by element, in order, from ONE source sequence S:
         S.iter().map(closure).collect()                      -> (S, value of the closure, its element symbol)
         let mut v = Vec::new(); for x in S { v.push(e) }; v  -> (S, e, elem(S))
       exactly one value per element, no early exit; otherwise None."""
    a = is_call(val, "collect", 1)
    if a is not None:
        m = is_call(a[0], "map", 2)
        if m is not None and isinstance(m[1], tuple) and m[1] and m[1][0] == "closure":
            S = E.loop_summaries.get("cl%s" % m[1][1])
            if S is None:
                return None
            live = [p for p in S["paths"] if p.exit is None]
            if len(live) != 1 or len(live) != len(S["paths"]) or any(e[0] != "loop" and not (allow and allow(e)) for e in live[0].eff):
                return None       # (nested effect-free closures / loops are fine: they only compute the element)
            return m[0], live[0].val, ("elem", m[0], "cl%s" % m[1][1])
        tk = is_call(a[0], "take", 2)
        rw = is_call(tk[0], "repeat_with", 1) if tk is not None else None
        if rw is not None and isinstance(rw[0], tuple) and rw[0] and rw[0][0] == "closure":
            # `repeat_with(|| e).take(n).collect()`: n values of e, in order  ==  (0..n).map(|_| e).collect()
            S = E.loop_summaries.get("cl%s" % rw[0][1])
            if S is None:
                return None
            live = [p for p in S["paths"] if p.exit is None]
            if len(live) != 1 or len(live) != len(S["paths"]) or live[0].pc or any(e[0] != "loop" and not (allow and allow(e)) for e in live[0].eff):
                return None
            rng = ("struct", "std::ops::Range", (("start", ("lit", "0")), ("end", tk[1])))
            return rng, live[0].val, ("elem", rng, "cl%s" % rw[0][1])
        return None
    if isinstance(val, tuple) and len(val) == 4 and val[0] == "loopout":
        name, lid, entry = val[1], val[2], val[3]
        if not (is_call(entry, "new", 0) is not None or is_call(entry, "with_capacity", 1) is not None or entry == ("vec", ())):
            return None
        S = E.loop_summaries.get(lid)
        if S is None or S.get("kind") != "for":
            return None
        paths = S["paths"]
        if len(paths) != 1 or paths[0].exit is not None or paths[0].pc:
            return None
        eff = [e for e in paths[0].eff if e[0] != "loop" and not (allow and allow(e))]       # nested loops only build the element
        if len(eff) != 1 or eff[0][0] != "push" or eff[0][1] != ("local", name):
            return None
        return S["iter"], eff[0][2], ("elem", S["iter"], lid)
    return None


def row_major_fill(E, val):
    """`val` is a vector filled by a loop nest that visits a nested source in order:
         for a in S { for b in a { acc.push(b) } }     /    .. { acc.extend(b) }  (extend = one more level)
       -> (S, depth) ; None when anything is conditional, skipped, reordered or mixed with other effects."""
    if not (isinstance(val, tuple) and len(val) == 4 and val[0] == "loopout"):
        return None
    name, lid, entry = val[1], val[2], val[3]
    if not (is_call(entry, "new", 0) is not None or is_call(entry, "with_capacity", 1) is not None):
        return None

    def rec(lid, expect):
        S = E.loop_summaries.get(lid)
        if S is None or S.get("kind") != "for" or len(S["paths"]) != 1:
            return None
        p = S["paths"][0]
        if p.exit is not None or p.pc:
            return None
        it = S["iter"]
        if expect is not None and it != expect:
            return None
        el = ("elem", it, lid)
        eff = list(p.eff)
        if len(eff) != 1:
            return None
        e = eff[0]
        if e[0] == "push" and e[1] == ("local", name) and e[2] == el:
            return it, 1
        if e[0] == "mut" and e[1].rsplit("::", 1)[-1] in ("extend", "extend_from_slice") and e[2] == ("local", name) and len(e[3]) == 1 and e[3][0] == el:
            return it, 2
        if e[0] == "loop":
            r = rec(e[1], el)
            if r is not None:
                return it, r[1] + 1
        return None
    return rec(lid, None)


def const_nest(E, t):
    """a nested vector filled with one literal: `vec![vec![lit; b]; a]`, `(0..a).map(|_| ..).collect()`, or a mix
       -> ([a, b, ..] outermost first, literal term)  or None"""
    fe = is_call(t, "from_elem", 2)
    if fe is not None:
        inner = const_nest(E, fe[0])
        if inner is None:
            return None
        return [fe[1]] + inner[0], inner[1]
    a = is_call(t, "collect", 1)
    if a is not None:
        m = is_call(a[0], "map", 2)
        if m is None or not (isinstance(m[1], tuple) and m[1] and m[1][0] == "closure"):
            return None
        rng = range_of(m[0])
        S = E.loop_summaries.get("cl%s" % m[1][1])
        if rng is None or rng[0] != ("lit", "0") or S is None:
            return None
        live = [p for p in S["paths"] if p.exit is None]
        if len(live) != 1 or len(S["paths"]) != 1 or live[0].pc or any(e[0] != "loop" for e in live[0].eff):
            return None
        inner = const_nest(E, live[0].val)
        if inner is None:
            return None
        return [rng[1]] + inner[0], inner[1]
    if isinstance(t, tuple) and t and t[0] == "lit":
        return [], t
    return None


def lin(t):
    """linear normal form of an integer-valued term: ({repr(atom): coefficient}, constant); products with a literal factor are
    distributed, anything else is an atom.  Two index expressions with equal forms are equal for all values (wrapping aside:
    `len - i - 1` and `len - 1 - i` agree whenever neither underflows, and rustc's overflow checks make underflow a panic)."""
    from fractions import Fraction

    def add(a, b, k=1):
        out = dict(a[0])
        for key, v in b[0].items():
            out[key] = out.get(key, 0) + k * v
            if out[key] == 0:
                del out[key]
        return out, a[1] + k * b[1]

    def rec(x):
        if isinstance(x, tuple) and x:
            if x[0] == "lit":
                v = str(x[1]).replace("_", "")
                for suf in ("usize", "isize", "u64", "i64", "u32", "i32", "u16", "i16", "u8", "i8"):
                    if v.endswith(suf):
                        v = v[:-len(suf)]
                if v.lstrip("-").isdigit():
                    return {}, int(v)
            if x[0] == "bin" and x[1] in ("Add", "Sub"):
                return add(rec(x[2]), rec(x[3]), 1 if x[1] == "Add" else -1)
            if x[0] == "bin" and x[1] == "Mul":
                a, b = rec(x[2]), rec(x[3])
                if not a[0]:
                    return {k: v * a[1] for k, v in b[0].items() if v * a[1] != 0}, a[1] * b[1]
                if not b[0]:
                    return {k: v * b[1] for k, v in a[0].items() if v * b[1] != 0}, a[1] * b[1]
            if x[0] == "un" and x[1] == "Deref":
                return rec(x[2])
            if x[0] == "call" and x[1].rsplit("::", 1)[-1] == "len" and len(x[2]) == 1:
                return {repr(("len", strip_upd(x[2][0]))): 1}, 0       # Vec::len / <[T]>::len of the same sequence: the same number
            if x[0] == "cast" and len(x) == 3 and x[2] in ("usize", "u64", "u32", "i32", "i64", "isize"):
                return rec(x[1])
        return {repr(x): 1}, 0
    return rec(t)


def poly(t):
    """polynomial normal form of an integer-valued E6 term: {sorted tuple of atom reprs: coefficient} (products distributed; len(X) is one atom per sequence)"""
    if isinstance(t, tuple) and t:
        if t[0] == "lit":
            v = str(t[1]).replace("_", "").replace("usize", "")
            if v.isdigit():
                return {(): int(v)} if int(v) else {}
        if t[0] == "bin" and t[1] in ("Add", "Sub"):
            a, b = poly(t[2]), poly(t[3])
            out = dict(a)
            for k, v in b.items():
                out[k] = out.get(k, 0) + (v if t[1] == "Add" else -v)
                if out[k] == 0:
                    del out[k]
            return out
        if t[0] == "bin" and t[1] == "Mul":
            a, b = poly(t[2]), poly(t[3])
            out = {}
            for k1, v1 in a.items():
                for k2, v2 in b.items():
                    k = tuple(sorted(k1 + k2))
                    out[k] = out.get(k, 0) + v1 * v2
                    if out[k] == 0:
                        del out[k]
            return out
        if t[0] == "un" and t[1] == "Deref":
            return poly(t[2])
        if t[0] == "cast" and len(t) == 3 and t[2] in ("usize", "u64"):
            return poly(t[1])
        if t[0] == "call" and t[1].rsplit("::", 1)[-1] == "len" and len(t[2]) == 1:
            return {(repr(("len", strip_upd(t[2][0]))),): 1}
    return {(repr(t),): 1}


def unself(t):
    """`self` seen from inside a loop that changes some of its fields is still the same object: loopin/loopout(self) -> p(self), `upd`s dropped"""
    if isinstance(t, tuple):
        if t and t[0] in ("loopin", "loopout") and len(t) >= 3 and t[1] == "self":
            return ("p", "self")
        if t and t[0] == "upd":
            return unself(t[1])
        return tuple(unself(x) for x in t)
    return t


def seq_walk(src, lid, X):
    """How the loop `lid` iterating `src` walks the sequence X.  Recognised sources (views like iter()/iter_mut() are transparent):
         X | rev(X) | enumerate(X) | enumerate(rev(X))          element = the (second component of the) loop element
         0..len(X) | rev(0..len(X)) [| enumerate of those]       element = X[j]  or  X[len(X) - 1 - j]  for the index j
    -> {"fwd": pred | None, "rev": pred | None, "pos": {"fwd": lin | None, "rev": lin | None}} where pred(term) says whether a term
    denotes the current element of a forward / reverse walk and pos is the linear form of its position in X;  None if unrelated."""
    el = ("elem", src, lid)
    rv0 = is_call(src, "rev", 1)
    en0 = is_call(rv0[0], "enumerate", 1) if rv0 else None
    if en0 is not None and unself(en0[0]) == X:
        # X.iter().enumerate().rev(): the pairs (position, element) of X, last first
        out0 = {"fwd": None, "rev": (lambda t, item=("proj", el, 1): strip_upd(t) == strip_upd(item)), "pos": {"fwd": None, "rev": lin(("proj", el, 0))}}
        return out0
    en = is_call(src, "enumerate", 1)
    base = en[0] if en else src
    item = ("proj", el, 1) if en else el
    cnt = ("proj", el, 0) if en else None
    rv = is_call(base, "rev", 1)
    inner = rv[0] if rv else base
    LEN = ("call", "std::vec::Vec::<T, A>::len", (X,))
    out = {"fwd": None, "rev": None, "pos": {"fwd": None, "rev": None}}

    def minus(a, b):
        return mk_bin("Sub", mk_bin("Sub", a, b), ("lit", "1"))
    if unself(inner) == X:
        d = "rev" if rv else "fwd"
        out[d] = lambda t, item=item: strip_upd(t) == strip_upd(item)
        if cnt is not None:
            out["pos"][d] = lin(minus(LEN, cnt)) if rv else lin(cnt)
        return out
    rng = range_of(inner)
    if rng is not None and rng[0] == ("lit", "0") and lin(unself(rng[1])) == lin(LEN):
        j = item
        same = lambda t, j=j: isinstance(t, tuple) and len(t) == 3 and t[0] == "idx" and unself(t[1]) == X and lin(unself(t[2])) == lin(unself(j))
        flip = lambda t, j=j: isinstance(t, tuple) and len(t) == 3 and t[0] == "idx" and unself(t[1]) == X and lin(unself(t[2])) == lin(minus(LEN, unself(j)))
        if rv:
            out["rev"], out["fwd"] = same, flip
            out["pos"]["rev"], out["pos"]["fwd"] = lin(j), lin(minus(LEN, j))
        else:
            out["fwd"], out["rev"] = same, flip
            out["pos"]["fwd"], out["pos"]["rev"] = lin(j), lin(minus(LEN, j))
        return out
    return None


def walk_element(paths, pred):
    """the scrutinee term of a variant test on the paths that `pred` recognises as the walk's current element (None if none / ambiguous)"""
    found = set()
    for p in paths:
        for (t, pol) in p.pc:
            if isinstance(t, tuple) and t and t[0] == "is" and pred(t[1]):
                found.add(t[1])
    return list(found)[0] if len(found) == 1 else None


def range_nest(E, t, leaf_effect=None):
    """a nested vector built element by element from index ranges `0..d`, outermost first:
         (0..d).map(|_| inner).collect()        |        let mut v = Vec::new(); for _ in 0..d { v.push(inner) }; v
    -> ([d0, d1, ..], innermost element term, effects of the innermost body)  -- every level unconditional, one element per index,
    no effects besides building the element (the innermost body may contain the effects accepted by leaf_effect); else None."""
    dims = []
    cur = t
    while True:
        a = is_call(cur, "collect", 1)
        m = is_call(a[0], "map", 2) if a is not None else None
        if m is not None and isinstance(m[1], tuple) and m[1] and m[1][0] == "closure":
            rng = range_of(m[0])
            S = E.loop_summaries.get("cl%s" % m[1][1])
            if rng is None or rng[0] != ("lit", "0") or S is None or len(S["paths"]) != 1:
                return None
            p = S["paths"][0]
            if p.exit is not None or p.pc:
                return None
            own = [e for e in p.eff if e[0] != "loop"]
            val = p.val
        elif isinstance(cur, tuple) and len(cur) == 4 and cur[0] == "loopout":
            name, lid, entry = cur[1], cur[2], cur[3]
            S = E.loop_summaries.get(lid)
            if S is None or S.get("kind") != "for" or len(S["paths"]) != 1:
                break
            if not (is_call(entry, "new", 0) is not None or is_call(entry, "with_capacity", 1) is not None or entry == ("vec", ())):
                return None
            rng = range_of(S["iter"])
            p = S["paths"][0]
            if rng is None or rng[0] != ("lit", "0") or p.exit is not None or p.pc:
                return None
            pushes = [e for e in p.eff if e[0] == "push" and e[1] == ("local", name)]
            if len(pushes) != 1:
                return None
            own = [e for e in p.eff if e[0] != "loop" and e is not pushes[0]]
            val = pushes[0][2]
        else:
            break
        dims.append(rng[1])
        inner = range_nest(E, val, leaf_effect)
        if inner is not None and inner[0]:
            if own:
                return None          # an outer level only assembles its rows
            return dims + inner[0], inner[1], inner[2]
        if any(not (leaf_effect and leaf_effect(e)) for e in own):
            return None
        return dims, val, own
    return [], t, []


def entry_value(path, t):
    """value a `loopin(name, lid)` local had when its loop was entered, read off the enclosing path (which holds `loopout(name, lid, entry)`)"""
    if not (isinstance(t, tuple) and len(t) == 3 and t[0] == "loopin"):
        return t
    for v in path.env.values():
        for x in find_terms(v, lambda y: y[0] == "loopout" and len(y) == 4 and y[1] == t[1] and y[2] == t[2]):
            return x[3]
    return t
