"""Canonical signatures of multiply-accumulate statements (index relations modulo loop-variable names)."""
from . import e1
from .e1 import Rat, rewrite
from .mac import Access

PRIO = ["K", "Y", "X"]


def signature(stmt, roles):
    """roles: {array name: 'Y'|'X'|'K'}. Returns (sig {role: [idx str]}, rename {atom: canon}, accs {role: Access}) or raises ValueError."""
    accs = {}
    allacc = list(stmt.reads.values()) + ([stmt.target] if isinstance(stmt.target, Access) else [])
    for a in allacc:
        r = roles.get(a.name)
        if r is None:
            raise ValueError("array `%s` has no role (%s)" % (a.name, roles))
        if r in accs and repr(accs[r]) != repr(a):
            raise ValueError("array role %s accessed twice with different indices" % r)
        accs[r] = a
    loopvars = {"%s#%d" % (nm, hid): (st, en, step) for (hid, nm, st, en, step) in stmt.loops if isinstance(hid, int)}
    rename = {}
    for r in PRIO:
        if r not in accs:
            continue
        for pos, ix in enumerate(accs[r].idx):
            at = ix.atoms()
            if len(at) == 1 and ix == Rat.atom(list(at)[0]) and list(at)[0] in loopvars and list(at)[0] not in rename:
                rename[list(at)[0]] = "%s%d" % (r, pos)

    def rule(name, args, atom):
        if name is None and atom in rename:
            return Rat.atom(rename[atom])
        return None
    sig = {}
    for r, a in accs.items():
        sig[r] = [str(rewrite(ix, rule)) for ix in a.idx]
    return sig, rename, accs


def rn(x, rename):
    def rule(name, args, atom):
        if name is None and atom in rename:
            return Rat.atom(rename[atom])
        return None
    return rewrite(x, rule)


S0, S1 = Rat.atom("self.stride.0"), Rat.atom("self.stride.1")
D0, D1 = Rat.atom("self.dilation.0"), Rat.atom("self.dilation.1")
P0, P1 = Rat.atom("self.padding.0"), Rat.atom("self.padding.1")


def v(s):
    return Rat.atom(s)


def spec_conv():
    return {"K": ["K0", "K1", "K2", "K3"], "Y": ["K0", "Y1", "Y2"],
            "X": ["K1", str(v("Y1") * S0 + v("K2") * D0), str(v("Y2") * S1 + v("K3") * D1)]}


def spec_deconv():
    return {"K": ["K0", "K1", "K2", "K3"], "X": ["K1", "X1", "X2"],
            "Y": ["K0", str(v("X1") * S0 + v("K2") - P0), str(v("X2") * S1 + v("K3") - P1)]}


def sig_str(sig):
    return "; ".join("%s[%s]" % (r, "][".join(sig[r])) for r in sorted(sig))
