"""E3b: loop-nest / index-map extraction for the convolution-like kernels.

From nested `for v in a..b [.step_by(s)]` loops it extracts every array update statement
    T[I] (=|+=|*=) f(A[J], B[K], ...)
with its `let`-bound index expressions inlined (canonical polynomials, sa/e1.py), the guards
under which it executes and the loop domain.  `checked_sub` idioms become a subtraction plus
a `>= 0` guard; scalar accumulators (`let mut sum = 0.0; .. sum += ..; y[..] = sum`) are
resolved to the array cell they are stored into.
"""
from .hir import strip, walk, pretty, short, pat_binds
from . import e1
from .e1 import Rat
from .e3 import vec_depth


class Access:
    def __init__(self, name, hid, idx, node):
        self.name, self.hid, self.idx, self.node = name, hid, idx, node

    def __repr__(self):
        return "%s%s" % (self.name, "".join("[%s]" % i for i in self.idx))


class Stmt:
    def __init__(self):
        self.node = None
        self.op = None          # "=", "+=", "*=", "-="
        self.target = None      # Access or ("local", hid, name)
        self.rhs = None         # Rat over ACC atoms
        self.reads = {}         # atom -> Access
        self.loops = []         # [(hid, name, start Rat, end Rat, step Rat|None)]
        self.guards = []        # [str]
        self.red_loops = []     # loops inside the accumulator scope (reduction loops)

    def __repr__(self):
        gs = []
        for g in self.guards:
            t = str(g)
            for a, acc in self.reads.items():
                t = t.replace(a, repr(acc))
            gs.append(t)
        return "%s %s %s | loops %s | guards %s" % (self.target, self.op, self.rhs_str(), [l[1] for l in self.loops], gs)

    def rhs_str(self):
        s = str(self.rhs)
        for a, acc in self.reads.items():
            s = s.replace(a, repr(acc))
        return s


class Extract:
    def __init__(self, crate, fn):
        self.c = crate
        self.fn = fn
        self.env = {}
        self.stmts = []
        self.nacc = 0
        self.guard_reads = {}   # ACCn -> Access read inside a guard condition
        self.allocs = {}     # hid -> [extent Rats outermost first] for vec![vec![..; w]; h] allocations
        self.names = {}
        self.acc_init = {}
        self.local_stmts = []
        self.alias = {}      # hid of `let t = &mut A[idx]` -> Access

    # -- normaliser with access capture
    def norm(self, n, reads):
        def cell(x):
            x = strip(x)
            if x.get("k") == "index":
                idx = []
                b = x
                while b.get("k") == "index":
                    idx.append(b["i"])
                    b = strip(b["b"])
                idx.reverse()
                d, el = vec_depth(self.c.ty(b))
                if b.get("k") == "local" and d >= len(idx) and el in ("f32", "(usize, usize)", "std::vec::Vec<(usize, usize)>") or (b.get("k") == "local" and d == len(idx)):
                    # a scalar element (or a row etc.) of a local array
                    if (self.c.ty(x) or "").lstrip("&") in ("f32", "mut f32", "(usize, usize)"):
                        N = e1.Norm(self.c, self.env)
                        acc = Access(b["name"], b["hid"], [N.norm(i) for i in idx], x)
                        self.nacc += 1
                        a = "ACC%d" % self.nacc
                        reads[a] = acc
                        return Rat.atom(a)
            return None
        N = e1.Norm(self.c, self.env, cell)
        return N.norm(n)

    def plain(self, n):
        return e1.Norm(self.c, self.env).norm(n)

    # -- statements
    def run(self):
        b = self.fn["body"]
        while b.get("k") == "blk":
            b = b["b"]
        self.block(b, [], [])
        self.resolve_accumulators()
        return self

    def block(self, b, loops, guards):
        nodes = list(b["stmts"]) + ([b["tail"]] if b["tail"] is not None else [])
        guards = list(guards)
        from . import e4 as _e4
        for s in nodes:
            self.stmt(s, loops, guards)
            # guard clauses: `if c { continue / break / return / panic }` restricts everything that follows in this block
            # (and in the loops nested below it) to !c; symmetrically for a diverging else branch
            s0 = strip(s)
            if s0 is not None and s0.get("k") == "if" and strip(s0["c"]).get("k") != "letx":
                P = _e4.Paths(self.c, lambda n_: False)
                th_ex = all(k_ != _e4.FALL for (k_, _) in P.out(s0["th"]))
                el_ex = s0["el"] is not None and all(k_ != _e4.FALL for (k_, _) in P.out(s0["el"]))
                if th_ex != el_ex:
                    try:
                        greads = {}
                        g = self.norm(s0["c"], greads)
                        self.guard_reads.update(greads)
                    except ValueError:
                        g = Rat.atom("?" + short(pretty(s0["c"]), 60))
                    guards.append(e1.negate_cond(g) if th_ex else g)

    def opt_expr(self, n, env=None, depth=0):
        """Option-valued index arithmetic: `X.checked_sub(Y)` (possibly behind a crate-local helper) -> (X - Y, guard X >= Y)"""
        n = strip(n)
        env = self.env if env is None else env
        N = e1.Norm(self.c, env)
        if n.get("k") == "mcall" and n["name"] == "checked_sub":
            a, b = N.norm(n["recv"]), N.norm(n["args"][0])
            return a - b, Rat.atom(e1.cmp_atom("Ge", a, b, integer=True))   # usize: same canonical atom as an explicit `a >= b`
        if n.get("k") == "blk" and n["b"]["stmts"] and n["b"]["tail"] is not None and n.get("lbl") is None and depth < 3:
            # a block of pure lets followed by the Option expression (e.g. an inlined helper)
            sub = dict(env)
            Ns = e1.Norm(self.c, sub)
            for st in n["b"]["stmts"]:
                if st.get("k") == "let" and st["pat"].get("k") == "bind" and st.get("init") is not None and st.get("els") is None:
                    try:
                        sub[st["pat"]["hid"]] = e1.Norm(self.c, sub).norm(st["init"])
                    except ValueError:
                        return None
                else:
                    return None
            return self.opt_expr(n["b"]["tail"], sub, depth + 1)
        if n.get("k") in ("call", "mcall") and depth < 3:
            callee = n.get("callee", "")
            callee = callee[5:] if callee.startswith("Self:") else callee
            fn = self.c.fns.get(callee)
            args = n["args"] if n["k"] == "call" else [n["recv"]] + list(n["args"])
            if fn is not None and fn.get("output", "").startswith("std::option::Option<usize>") and len(fn["params"]) == len(args):
                sub = {}
                for p_, a_ in zip(fn["params"], args):
                    while p_.get("k") in ("ref", "deref"):
                        p_ = p_["p"]
                    if p_.get("k") != "bind":
                        return None
                    sub[p_["hid"]] = N.norm(a_)
                b = fn["body"]
                while b.get("k") == "blk":
                    b = b["b"]
                Ns = e1.Norm(self.c, sub)
                for st in b["stmts"]:
                    if st.get("k") == "let" and st["pat"].get("k") == "bind" and st["init"] is not None:
                        sub[st["pat"]["hid"]] = e1.Norm(self.c, sub).norm(st["init"])
                    else:
                        return None
                if b["tail"] is None:
                    return None
                return self.opt_expr(b["tail"], sub, depth + 1)
        return None

    def alloc_builder(self, n):
        """`(0..a).map(|_| (0..b).map(|_| vec![0.0; c]).collect()).collect()` -> [a, b, c] (outermost first)"""
        ext = []
        cur = strip(n)
        while cur is not None and cur.get("k") == "mcall" and cur["name"] == "collect":
            mp = strip(cur["recv"])
            if not (mp.get("k") == "mcall" and mp["name"] == "map" and len(mp["args"]) == 1):
                return None
            rng = strip(mp["recv"])
            if not (rng.get("k") == "struct" and rng["path"] == "std::ops::Range"):
                return None
            fs = dict((a, b) for a, b in rng["fs"])
            if strip(fs["start"]).get("v") != "0":
                return None
            try:
                ext.append(self.plain(fs["end"]))
            except ValueError:
                return None
            cl = strip(mp["args"][0])
            if cl.get("k") != "closure" or any(pat_binds(q) for q in cl["params"]):
                return None
            cur = strip(cl["body"])
            while cur.get("k") == "blk" and not cur["b"]["stmts"]:
                cur = strip(cur["b"]["tail"])
        while cur is not None and cur.get("k") == "call" and cur["callee"].endswith("vec::from_elem"):
            try:
                ext.append(self.plain(cur["args"][1]))
            except ValueError:
                return None
            cur = strip(cur["args"][0])
        if cur is None or cur.get("k") != "lit" or not ext:
            return None
        return ext

    def bind_let(self, s, guards):
        pat, init = s["pat"], s["init"]
        if init is None:
            return
        i = strip(init)
        p = pat
        while p.get("k") in ("ref", "deref"):
            p = p["p"]
        # `let Some(x) = <option expr> else { continue }`
        if p.get("k") == "tstruct" and p["path"].endswith("::Some") and len(p["ps"]) == 1 and s.get("els") is not None:
            try:
                oe = self.opt_expr(init)
            except ValueError:
                oe = None
            b_ = pat_binds(p)
            if oe is not None and len(b_) == 1:
                self.env[b_[0][1]] = oe[0]
                guards.append(oe[1])
                return
        if p.get("k") == "tuple" and i.get("k") == "blk" and i["b"]["stmts"] and i["b"]["tail"] is not None and i.get("lbl") is None:
            # `let (a, b) = { S..; (x, y) }` (an inlined helper returning a pair): run S.., then a := x, b := y
            t_ = strip(i["b"]["tail"])
            if t_ is not None and t_.get("k") == "tup" and len(t_["xs"]) == len(p["ps"]):
                self.block({"k": "block", "stmts": i["b"]["stmts"], "tail": None}, getattr(self, "_cur_loops", []), guards)
                for q, e in zip(p["ps"], t_["xs"]):
                    while q.get("k") in ("ref", "deref"):
                        q = q["p"]
                    if q.get("k") != "bind":
                        continue
                    e0 = strip(e)
                    if e0.get("k") == "local" and e0["hid"] in self.acc_init:
                        self.env[q["hid"]] = Rat.atom("%s#%d" % (e0["name"], e0["hid"]))
                    else:
                        try:
                            self.env[q["hid"]] = self.plain(e)
                        except ValueError:
                            pass
                return
        if p.get("k") == "bind":
            # `let t = &mut A[idx]`: alias of an array cell
            raw = init
            while raw.get("k") == "blk" and not raw["b"]["stmts"]:
                raw = raw["b"]["tail"]
            if raw.get("k") == "ref" and raw.get("mut") and strip(raw).get("k") == "index":
                reads = {}
                try:
                    self.norm(strip(raw), reads)
                except ValueError:
                    reads = {}
                if len(reads) == 1:
                    self.alias[p["hid"]] = list(reads.values())[0]
                    return
            if i.get("k") == "if" and i["el"] is not None:
                cn = strip(i["c"])
                el = strip(i["el"])
                while el.get("k") == "blk" and not el["b"]["stmts"] and el["b"]["tail"] is not None:
                    el = strip(el["b"]["tail"])
                el_stmts = el["b"]["stmts"] if el.get("k") == "blk" else [el]
                exits = el.get("k") in ("continue", "break") or (len(el_stmts) == 1 and strip(el_stmts[0]).get("k") in ("continue", "break"))
                if cn.get("k") == "letx" and exits:
                    # `let v = if let Some(x) = <option expr> { x } else { continue };`
                    pp = cn["pat"]
                    while pp.get("k") in ("ref", "deref"):
                        pp = pp["p"]
                    th = strip(i["th"])
                    while th is not None and th.get("k") == "blk" and not th["b"]["stmts"] and th["b"]["tail"] is not None:
                        th = strip(th["b"]["tail"])
                    pb_ = pat_binds(pp)
                    if pp.get("k") == "tstruct" and pp["path"].endswith("::Some") and len(pb_) == 1 and th is not None and th.get("k") == "local" and th["hid"] == pb_[0][1]:
                        try:
                            oe = self.opt_expr(cn["init"])
                        except ValueError:
                            oe = None
                        if oe is not None:
                            self.env[p["hid"]] = oe[0]
                            guards.append(oe[1])
                            return
                if cn.get("k") == "bin" and cn["op"] in ("Ge", "Le", "Gt", "Lt") and exits:
                    try:
                        g = self.plain(cn)
                        v = self.plain(i["th"])
                        self.env[p["hid"]] = v
                        guards.append(g)
                        return
                    except ValueError:
                        pass
            # checked_sub idiom
            if i.get("k") == "match":
                try:
                    oe = self.opt_expr(i["scrut"])
                except ValueError:
                    oe = None
                if oe is not None:
                    self.env[p["hid"]] = oe[0]
                    guards.append(oe[1])
                    return
            if i.get("k") == "mcall" and i["name"] == "collect":
                ext = self.alloc_builder(i)
                if ext is not None:
                    self.allocs[p["hid"]] = ext
                    self.names[p["hid"]] = p["name"]
                    return
            if i.get("mac") == "vec" or (i.get("k") == "call" and i["callee"].endswith("vec::from_elem")):
                ext = []
                x = i
                while x.get("k") == "call" and x["callee"].endswith("vec::from_elem"):
                    try:
                        ext.append(self.plain(x["args"][1]))
                    except ValueError:
                        ext.append(None)
                    x = strip(x["args"][0])
                self.allocs[p["hid"]] = ext
                self.names[p["hid"]] = p["name"]
                return
            ty = (self.c.types[p["t"]] or "").lstrip("&")
            if "Mut" in p.get("mode", "") and ty in ("f32", "(usize, usize)", "usize"):
                # mutable scalar: an accumulator / running value; keep it symbolic and remember its initial value
                try:
                    self.acc_init[p["hid"]] = self.plain(init)
                except ValueError:
                    self.acc_init[p["hid"]] = None
                self.env[p["hid"]] = Rat.atom("%s#%d" % (p["name"], p["hid"]))
                return
            if i.get("k") == "tup" and "Mut" not in p.get("mode", "") and all(t_.strip() in ("usize", "f32", "i32", "u64") for t_ in ty.strip("()").split(",")):
                # `let pair = (a, b);` of scalars: known component-wise (so `pair.0` is a)
                try:
                    self.env[p["hid"]] = e1.fn_atom("tup", *[self.plain(x_) for x_ in i["xs"]])
                except ValueError:
                    pass
                return
            if ty in ("usize", "f32", "i32", "u64", "bool"):
                try:
                    reads = {}
                    v = self.norm(init, reads)
                    if not reads:
                        self.env[p["hid"]] = v
                    else:
                        self.env[p["hid"]] = v
                        self._pending_reads = getattr(self, "_pending_reads", {})
                        self._pending_reads.update(reads)
                except ValueError:
                    pass
            return
        if p.get("k") == "tuple" and i.get("k") == "tup" and len(p["ps"]) == len(i["xs"]):
            for q, x in zip(p["ps"], i["xs"]):
                self.bind_let({"pat": q, "init": x}, guards)
            return
        if p.get("k") == "tuple" and i.get("k") in ("local", "field") and (self.c.ty(i) or "").replace("&", "").startswith("("):
            try:
                base = e1.Norm(self.c, self.env).place_name(i)
            except ValueError:
                base = None
            if base is not None:
                for pos, q in enumerate(p["ps"]):
                    for nm, h in pat_binds(q):
                        self.env[h] = Rat.atom("%s.%d" % (base, pos))
                return
        if p.get("k") == "tuple" and i.get("k") == "match":
            # let (a, b) = match X { Pattern(.., h, w) => (*h, *w), _ => panic }
            def _arm_tuple(arm_):
                b_ = strip(arm_["body"])
                pre = []
                if b_ is not None and b_.get("k") == "blk" and b_["b"]["tail"] is not None and all(x_.get("k") == "let" for x_ in b_["b"]["stmts"]):
                    pre = list(b_["b"]["stmts"])
                    b_ = strip(b_["b"]["tail"])
                if b_ is not None and b_.get("k") == "tup" and len(b_["xs"]) == len(p["ps"]):
                    return pre, b_
                return None
            cands_ = [a_ for a_ in i["arms"] if _arm_tuple(a_) is not None]
            # the general (3-D) arm describes the extents of the data itself; a flat arm re-derives them from the declared shape
            cands_.sort(key=lambda a_: 0 if "Triple" in pat_str_safe(a_["pat"]) else 1)
            for arm in cands_[:1]:
                pre_, body = _arm_tuple(arm)
                if True:
                    scr = pretty(strip(i["scrut"]))
                    ap = arm["pat"]
                    while ap.get("k") in ("ref", "deref"):
                        ap = ap["p"]
                    if ap.get("k") == "tstruct":
                        for pos, q in enumerate(ap["ps"]):
                            for nm, h in pat_binds(q):
                                self.env[h] = Rat.atom("%s.%d" % (scr, pos))
                    for st_ in pre_:
                        self.bind_let(st_, guards)       # the arm's own temporaries (`let rows = tensor[0].len();`)
                    for q, x in zip(p["ps"], body["xs"]):
                        self.bind_let({"pat": q, "init": x}, guards)
                    return

    def stmt(self, s, loops, guards):
        k = s.get("k")
        if k == "let":
            self._cur_loops = loops
            self.bind_let(s, guards)
            return
        if k == "for":
            it = strip(s["iter"])
            step = None
            if it.get("k") == "mcall" and it["name"] == "enumerate" and not it["args"] and s["pat"].get("k") == "tuple" and len(s["pat"]["ps"]) == 2:
                # `for (n, v) in (a..b).step_by(s).enumerate()`: v walks the range, n = (v - a) / s is its ordinal
                inner = strip(it["recv"])
                rng0 = strip(inner["recv"]) if inner.get("k") == "mcall" and inner["name"] == "step_by" else inner
                pn, pv = s["pat"]["ps"]
                if rng0.get("k") == "struct" and rng0["path"] == "std::ops::Range" and pn.get("k") == "bind" and pv.get("k") == "bind":
                    fs0 = dict((a, b) for a, b in rng0["fs"])
                    try:
                        st0 = self.plain(fs0["start"])
                        sp0 = self.plain(inner["args"][0]) if inner is not rng0 else None
                    except ValueError:
                        st0 = None
                    if st0 is not None:
                        vat = Rat.atom("%s#%d" % (pv["name"], pv["hid"]))
                        off = vat - st0
                        self.env[pn["hid"]] = off if sp0 is None else e1.fn_atom("idiv", off, sp0)
                        s = dict(s)
                        s["pat"] = pv
                        s["iter"] = inner
                        it = inner
            if it.get("k") == "mcall" and it["name"] == "step_by":
                step = self.plain(it["args"][0])
                it = strip(it["recv"])
            if it.get("k") == "struct" and it["path"] == "std::ops::Range":
                fs = dict((a, b) for a, b in it["fs"])
                try:
                    st, en = self.plain(fs["start"]), self.plain(fs["end"])
                except ValueError:
                    st = en = None
                bs = pat_binds(s["pat"])
                if len(bs) == 1:
                    nm, hid = bs[0]
                    self.env[hid] = Rat.atom("%s#%d" % (nm, hid))
                    self.block_of(s["body"], loops + [(hid, nm, st, en, step)], guards)
                    return
                self.block_of(s["body"], loops + [(None, "_", st, en, step)], guards)
                return
            # iterator loops (e.g. over max indices): bind pattern vars as opaque per-iteration atoms
            src = it
            for nm, hid in pat_binds(s["pat"]):
                self.env[hid] = Rat.atom("%s#%d" % (nm, hid))
            try:
                reads = {}
                srcv = self.norm(it, reads) if it.get("k") in ("index",) else None
            except ValueError:
                srcv = None
            self.block_of(s["body"], loops + [(("iter", id(s)), pretty(it), None, None, None)], guards)
            self.iter_sources = getattr(self, "iter_sources", {})
            self.iter_sources[id(s)] = (it, [h for (_, h) in pat_binds(s["pat"])], [n_ for (n_, _) in pat_binds(s["pat"])])
            return
        if k == "if":
            c = strip(s["c"])
            if c.get("k") == "letx":
                # `if let Some(v) = X.checked_sub(Y) { .. } [else { .. }]`: v = X - Y under the guard X >= Y
                pat_ = c["pat"]
                while pat_.get("k") in ("ref", "deref"):
                    pat_ = pat_["p"]
                oe = None
                if pat_.get("k") == "tstruct" and pat_["path"].endswith("::Some") and len(pat_.get("ps") or []) == 1 and pat_["ps"][0].get("k") == "bind":
                    try:
                        oe = self.opt_expr(c["init"])
                    except ValueError:
                        oe = None
                if oe is not None:
                    val_, g_ = oe
                    self.env[pat_["ps"][0]["hid"]] = val_
                    self.block_of(s["th"], loops, guards + [g_])
                    if s["el"] is not None:
                        self.block_of(s["el"], loops, guards + [e1.negate_cond(g_)])
                    return
                self.block_of(s["th"], loops, guards)
                if s["el"] is not None:
                    self.block_of(s["el"], loops, guards)
                return
            try:
                reads = {}
                g = self.norm(s["c"], reads)
                self.guard_reads.update(reads)
                if reads:
                    self._pending_reads = getattr(self, "_pending_reads", {})
                    self._pending_reads.update(reads)
            except ValueError:
                g = Rat.atom("?" + short(pretty(s["c"]), 60))
            self.block_of(s["th"], loops, guards + [g])
            if s["el"] is not None:
                self.block_of(s["el"], loops, guards + [e1.negate_cond(g)])
            return
        if k == "blk":
            self.block(s["b"], loops, guards)
            return
        if k in ("assign", "assignop"):
            r0 = s["r"]
            while r0 is not None and r0.get("k") == "blk" and not r0["b"]["stmts"] and r0["b"]["tail"] is not None:
                r0 = r0["b"]["tail"]
            if r0 is not None and r0.get("k") == "blk" and r0["b"]["stmts"] and r0["b"]["tail"] is not None and r0.get("lbl") is None:
                # `T = { S..; e }` (e.g. an inlined helper that accumulates and returns its sum)  ==  `S..; T = e`
                self.block({"k": "block", "stmts": r0["b"]["stmts"], "tail": None}, loops, guards)
                s = dict(s)
                s["r"] = r0["b"]["tail"]
            st = Stmt()
            st.node = s
            st.op = "=" if k == "assign" else {"Add": "+=", "Sub": "-=", "Mul": "*=", "Div": "/="}.get(s["op"].replace("Assign", ""), s["op"])
            st.loops = list(loops)
            st.guards = list(guards)
            reads = {}
            try:
                st.rhs = self.norm(s["r"], reads)
            except ValueError as e:
                st.rhs = Rat.atom("?(%s)" % short(pretty(s["r"]), 50))
            # inline reads captured while binding scalar lets (e.g. `let _x = x[c][h][w]`)
            pend = getattr(self, "_pending_reads", {})
            for a in st.rhs.atoms() | set(guards and [] or []):
                pass
            st.reads = dict(reads)
            for a, acc in pend.items():
                if a in e1._all_atoms(st.rhs) or any(a in e1._all_atoms(g) for g in guards):
                    st.reads[a] = acc
            l = strip(s["l"])
            treads = {}
            if l.get("k") == "local" and l["hid"] in self.alias:
                st.target = self.alias[l["hid"]]
            elif l.get("k") == "index":
                v = self.norm(l, treads)
                if len(treads) == 1:
                    st.target = list(treads.values())[0]
            elif l.get("k") == "local":
                st.target = ("local", l["hid"], l["name"])
                if st.op == "=" and l["hid"] not in self.acc_init:
                    self.env[l["hid"]] = st.rhs if not st.reads else Rat.atom("%s#%d" % (l["name"], l["hid"]))
            if st.target is not None:
                self.stmts.append(st)
            return
        if k == "match" and s.get("from_if_let") and len(s["arms"]) == 2:
            # an `if let P = e {A} else {B}` in its two-armed form (hir.matchified): same treatment as the `if let`
            s = {"k": "if", "c": {"k": "letx", "pat": s["arms"][0]["pat"], "init": s["scrut"]}, "th": s["arms"][0]["body"],
                 "el": None if (s["arms"][1]["body"].get("k") == "tup" and not s["arms"][1]["body"].get("xs")) else s["arms"][1]["body"], "line": s.get("line")}
            return self.stmt(s, loops, guards)
        if k == "mcall" or k == "call" or k == "match" or k == "continue" or k == "break":
            return

    def block_of(self, n, loops, guards):
        n = strip(n)
        if n.get("k") == "blk":
            self.block(n["b"], loops, guards)
        else:
            self.stmt(n, loops, guards)

    def resolve_accumulators(self):
        """`sum += f(..)` into a local that is later stored with `Y[idx] = sum` -> target Y[idx], op +=."""
        stores = {}
        for st in self.stmts:
            if isinstance(st.target, Access) and st.op == "=" and len(st.rhs.atoms()) == 1:
                a = list(st.rhs.atoms())[0]
                if "#" in a and a not in st.reads:
                    hid = int(a.split("#")[1])
                    stores[hid] = st
        out = []
        for st in self.stmts:
            if isinstance(st.target, tuple) and st.target[1] in stores and st.op in ("+=", "-=", "*="):
                store = stores[st.target[1]]
                n = Stmt()
                n.node, n.op, n.rhs, n.reads, n.guards = st.node, st.op, st.rhs, st.reads, st.guards
                n.target = store.target
                n.loops = st.loops
                n.red_loops = st.loops[len(store.loops):]
                n.via_accumulator = st.target[2]
                out.append(n)
            elif isinstance(st.target, tuple):
                self.local_stmts.append(st)
                continue
            else:
                out.append(st)
        self.stmts = out


def pat_str_safe(p):
    try:
        from .hir import pat_str
        return pat_str(p)
    except Exception:  # noqa
        return ""


def extract(crate, fn):
    # enumerate-driven loops are read in their index form (desugar D7); the function record is copied, the facts are not changed
    import copy as _copy
    from . import desugar as _ds
    from .hir import matchified as _matchified
    if any(x.get("k") == "letx" for x in walk(fn["body"])):
        fn = _matchified(fn)        # `if let P = e {A} else {B}` read as the two-armed match it is
    if any(x.get("k") == "mcall" and x.get("name") in ("enumerate", "zip") for x in walk(fn["body"])) or \
            any(x.get("k") == "for" and strip(x["iter"]) is not None and strip(x["iter"]).get("k") == "mcall" and strip(x["iter"]).get("name") in ("iter", "iter_mut")
                and any(y.get("k") == "mcall" and y.get("name") == "push" for y in walk(x["body"])) for x in walk(fn["body"])):
        fn2 = _copy.deepcopy(fn)
        changed = False
        for _ in range(6):       # nested loops over the elements bound by an outer rewritten loop
            if not _ds.enumerate_to_index(fn2, crate.types):
                break
            changed = True
        if changed:
            fn = fn2
    if any(x.get("k") == "mcall" and x.get("name") == "map" and strip(x["recv"]) is not None and strip(x["recv"]).get("k") == "struct" for x in walk(fn["body"])):
        fn4 = _copy.deepcopy(fn)
        if _ds.range_map_collect_to_push(fn4, crate.types):      # desugar D21, then blocks lifted out of the `push` arguments and flattened
            for _ in range(6):
                a_ = _ds.lift_arg_blocks(fn4, crate.types)
                b_ = _ds.flatten_blocks(fn4)
                c_ = _ds.move_aliases(fn4)
                if not (a_ or b_ or c_):
                    break
            fn = fn4
    if any(x.get("k") == "mcall" and x.get("name") == "push" for x in walk(fn["body"])):
        fn3 = _copy.deepcopy(fn)
        if _ds.push_nests_to_index(fn3, crate.types):      # desugar D16: vectors built by one push per iteration, read in indexed form
            fn = fn3
    return Extract(crate, fn).run()
