"""Pre-pass: reduce a few surface forms to the one the rules already understand (all rewrites are semantics preserving).

  D1  `debug_assert!(..)` statements are removed: they restate facts, and when one fires the call is a rejection
      (panic), never a wrong result.
  D2  `let PAT = e else { diverge };` with a refutable (enum) pattern becomes
      `let (b1, .., bn) = match e { PAT' => (b1', .., bn'), _ => { diverge } };`  (one binding: `let b = match ..`),
      the spelling the pinned tree uses for "take the extents of a Shape::Triple or panic".
  D3  `let (a, b) = <pure place>;` of an immutable tuple place (`self.stride`, `self.kernel` in a `&self` method, an
      immutable local) is substituted: every use of `a` becomes `<place>.0`, so index arithmetic written with
      destructured locals normalises to the same atoms as arithmetic written with `self.stride.0`.
  D4  `let (a, b) = (e1, e2);` is split into `let a = e1; let b = e2;`.
  D5  a local closure whose every use is a direct call is inlined at its call sites.
  D7  (applied by the loop-nest extractor sa/mac.py only) `for (i, e) in X.iter().enumerate()` over a pure place becomes `for i in 0..X.len()` with `e` replaced by `X[i]`.
  D6  `let d = (e0, e1, ..);` used only as `d.N` (with duplicable components) is replaced by its components.
"""
import copy

OFF = 8000000


def _walk(n):
    stack = [n]
    while stack:
        x = stack.pop()
        if isinstance(x, dict):
            yield x
            stack.extend(x.values())
        elif isinstance(x, list):
            stack.extend(x)


def _binds(p, out=None):
    out = [] if out is None else out
    if p is None:
        return out
    k = p.get("k")
    if k == "bind":
        out.append(p)
        if p.get("sub"):
            _binds(p["sub"], out)
    elif k in ("tuple", "tstruct", "or"):
        for q in p["ps"]:
            _binds(q, out)
    elif k == "struct":
        for _, q in p["fs"]:
            _binds(q, out)
    elif k in ("ref", "deref"):
        _binds(p["p"], out)
    return out


def _refutable(p):
    k = p.get("k")
    if k in ("ref", "deref"):
        return _refutable(p["p"])
    if k in ("tstruct", "ppath", "plit", "or"):
        return True
    if k == "struct":
        return True
    if k == "tuple":
        return any(_refutable(q) for q in p["ps"])
    return False


def strip_debug_asserts(body):
    n = 0
    for b in _walk(body):
        if b.get("k") == "block":
            keep = []
            for s in b["stmts"]:
                s0 = s
                while s0 is not None and s0.get("k") == "blk" and not s0["b"]["stmts"] and s0["b"]["tail"] is not None:
                    s0 = s0["b"]["tail"]
                if s0 is not None and str(s0.get("mac") or "").startswith("debug_assert"):
                    n += 1
                    continue
                keep.append(s)
            b["stmts"] = keep
    return n


def let_else_to_match(body):
    n = 0
    for s in _walk(body):
        if s.get("k") == "let" and s.get("els") is not None and s.get("init") is not None and _refutable(s["pat"]):
            binds = _binds(s["pat"])
            inner = copy.deepcopy(s["pat"])
            for q in _walk(inner):
                if q.get("k") == "bind":
                    q["hid"] = q["hid"] + OFF
            locs = [{"k": "local", "name": b["name"], "hid": b["hid"] + OFF, "t": b.get("t"), "line": s.get("line")} for b in binds]
            if len(binds) == 1:
                val = locs[0]
                outer = dict(binds[0])
                outer.pop("sub", None)
                # a `ref` binding mode on the inner pattern is kept there; the outer binding takes the value as is
                outer["mode"] = "BindingMode(No, Not)" if "Mut)" not in str(outer.get("mode")) else "BindingMode(No, Mut)"
            else:
                val = {"k": "tup", "xs": locs, "line": s.get("line")}
                ps = []
                for b in binds:
                    o = dict(b)
                    o.pop("sub", None)
                    o["mode"] = "BindingMode(No, Not)" if "Mut)" not in str(o.get("mode")) else "BindingMode(No, Mut)"
                    ps.append(o)
                outer = {"k": "tuple", "ps": ps}
            m = {"k": "match", "scrut": s["init"], "src": "Normal", "line": s.get("line"),
                 "arms": [{"pat": inner, "guard": None, "body": val},
                          {"pat": {"k": "wild"}, "guard": None, "body": s["els"]}]}
            s["pat"] = outer
            s["init"] = m
            s["els"] = None
            s["from_let_else"] = True
            n += 1
    return n


def _pure_place(n, depth=0):
    if n is None or depth > 5:
        return False
    k = n.get("k")
    if k == "local":
        return True
    if k == "field":
        return _pure_place(n["b"], depth + 1)
    if k == "ref" and not n.get("mut"):
        return _pure_place(n["x"], depth + 1)
    if k == "un" and n.get("op") == "Deref":
        return _pure_place(n["x"], depth + 1)
    if k == "blk" and not n["b"]["stmts"] and n["b"]["tail"] is not None:
        return _pure_place(n["b"]["tail"], depth + 1)
    return False


def _root(n):
    while n is not None and n.get("k") in ("field", "ref", "un", "blk"):
        if n["k"] == "field":
            n = n["b"]
        elif n["k"] in ("ref", "un"):
            n = n["x"]
        else:
            n = n["b"]["tail"]
    return n


def destructure_subst(fn, types):
    body = fn.get("body")
    n = 0
    # which locals are ever assigned / mutably borrowed (then their fields are not stable)
    unstable = set()
    for x in _walk(body):
        if x.get("k") in ("assign", "assignop"):
            r = _root(x["l"])
            if r is not None and r.get("k") == "local":
                unstable.add(r["hid"])
        if x.get("k") == "ref" and x.get("mut"):
            r = _root(x["x"])
            if r is not None and r.get("k") == "local":
                unstable.add(r["hid"])
        if x.get("k") == "mcall":
            ta = x["recv"].get("ta", x["recv"].get("t"))
            if ta is not None and types[ta].startswith("&mut"):
                r = _root(x["recv"])
                if r is not None and r.get("k") == "local":
                    unstable.add(r["hid"])
    self_shared = False
    for p in fn.get("params") or []:
        if p.get("k") == "bind" and p.get("name") == "self":
            t = types[p["t"]] if p.get("t") is not None else ""
            self_shared = t.startswith("&") and not t.startswith("&mut")
            if not self_shared:
                unstable.add(p["hid"])
    mapping = {}
    byref_map = {}
    for b in _walk(body):
        if b.get("k") != "block":
            continue
        keep = []
        for s in b["stmts"]:
            if s.get("k") == "let" and s.get("init") is not None and s.get("els") is None and s["pat"].get("k") in ("ref", "deref") and _pure_place(s["init"]):
                p_ = s["pat"]
                while p_ is not None and p_.get("k") in ("ref", "deref"):
                    p_ = p_["p"]
                if p_ is not None and p_.get("k") == "tuple":
                    s["pat"] = p_          # `let &(a, b) = r;` takes the tuple behind the reference apart: `let (a, b) = *r;`
            ok = (s.get("k") == "let" and s.get("init") is not None and s.get("els") is None and s["pat"].get("k") == "tuple"
                  and all(q.get("k") in ("bind", "wild") and not q.get("sub") and "Mut)" not in str(q.get("mode")) and not str(q.get("mode", "")).startswith("BindingMode(Ref")
                          for q in s["pat"]["ps"]) and _pure_place(s["init"]))
            if ok:
                r = _root(s["init"])
                ok = r is not None and r.get("k") == "local" and r["hid"] not in unstable and r["hid"] not in mapping
            if ok:
                init = s["init"]
                while init.get("k") in ("ref",) or (init.get("k") == "blk"):
                    init = init["x"] if init["k"] == "ref" else init["b"]["tail"]
                for i, q in enumerate(s["pat"]["ps"]):
                    if q.get("k") == "bind":
                        mapping[q["hid"]] = {"k": "field", "b": init, "f": str(i), "t": q.get("t"), "line": s.get("line")}
                n += 1
                continue
            # `let S { a, b } = *self;` / `= place;` (immutable copies of fields that are never written in this function): a is place.a
            if (s.get("k") == "let" and s.get("init") is not None and s.get("els") is None and s["pat"].get("k") == "struct" and s["pat"].get("fs")
                    and all(q.get("k") in ("bind", "wild") and not q.get("sub") and str(q.get("mode", "BindingMode(No, Not)")).endswith("No, Not)") for _, q in s["pat"]["fs"])
                    and _pure_place(s["init"])):
                r = _root(s["init"])
                init = s["init"]
                while init.get("k") in ("ref", "blk") or (init.get("k") == "un" and init.get("op") == "Deref"):
                    init = init["x"] if init["k"] in ("ref", "un") else init["b"]["tail"]
                chain = []
                t_ = init
                while t_ is not None and t_.get("k") == "field":
                    chain.append(t_["f"])
                    t_ = t_["b"]
                    while t_ is not None and (t_.get("k") in ("ref",) or (t_.get("k") == "un" and t_.get("op") == "Deref")):
                        t_ = t_["x"]
                i0_ = _unblk(s["init"])
                ti_ = i0_.get("ta", i0_.get("t")) if i0_ is not None else None
                by_ref = (i0_ is not None and i0_.get("k") in ("local", "field") and ti_ is not None and ti_ < len(types) and types[ti_].startswith("&")) or \
                         (i0_ is not None and i0_.get("k") == "ref")
                if by_ref and r is not None and r.get("k") == "local" and r["hid"] not in mapping and \
                        not any(y.get("k") in ("assign", "assignop") and _unblk(y["l"]) is not None and _unblk(y["l"]).get("k") == "local"
                                and _unblk(y["l"])["hid"] in [q["hid"] for _, q in s["pat"]["fs"] if q.get("k") == "bind"] + [r["hid"]] for y in _walk(body)):
                    # destructuring through a reference binds references to the fields: `*f` is place.f, a bare `f` is `&mut place.f`
                    for a_, q in s["pat"]["fs"]:
                        if q.get("k") == "bind":
                            byref_map[q["hid"]] = {"k": "field", "b": init, "f": a_, "t": None, "line": s.get("line")}
                    n += 1
                    continue
                if r is not None and r.get("k") == "local" and r["hid"] not in mapping:
                    roots = [(r["hid"], chain[-1] if chain else a_) for a_, q in s["pat"]["fs"] if q.get("k") == "bind"]
                    whole = any(y.get("k") == "mcall" and _unblk(y["recv"]) is not None and _root(y["recv"]) is not None and _root(y["recv"]).get("k") == "local"
                                and _root(y["recv"])["hid"] == r["hid"] and not any(z.get("k") in ("field", "index") for z in _walk(y["recv"]))
                                and y.get("name") not in ("clone", "len", "is_some", "is_none", "is_empty") for y in _walk(body))
                    if _never_written(fn, roots) and not whole:
                        for a_, q in s["pat"]["fs"]:
                            if q.get("k") == "bind":
                                mapping[q["hid"]] = {"k": "field", "b": init, "f": a_, "t": q.get("t"), "line": s.get("line")}
                        n += 1
                        continue
            keep.append(s)
        b["stmts"] = keep
    if byref_map:
        def subst_r(x):
            if isinstance(x, dict):
                if x.get("k") == "un" and x.get("op") == "Deref":
                    i1 = _unblk(x["x"])
                    if i1 is not None and i1.get("k") == "local" and i1.get("hid") in byref_map:
                        r_ = copy.deepcopy(byref_map[i1["hid"]])
                        if "t" in x:
                            r_["t"] = x["t"]
                        return r_
                if x.get("k") == "local" and x.get("hid") in byref_map:
                    return {"k": "ref", "mut": True, "x": copy.deepcopy(byref_map[x["hid"]]), "line": x.get("line"), "t": x.get("t")}
                for k_, v in list(x.items()):
                    if isinstance(v, (dict, list)):
                        x[k_] = subst_r(v)
                return x
            if isinstance(x, list):
                return [subst_r(v) for v in x]
            return x
        fn["body"] = body = subst_r(body)
    if mapping:
        def subst(x):
            if isinstance(x, dict):
                if x.get("k") == "local" and x.get("hid") in mapping:
                    return copy.deepcopy(mapping[x["hid"]])
                for k_, v in list(x.items()):
                    if isinstance(v, (dict, list)):
                        x[k_] = subst(v)
                return x
            if isinstance(x, list):
                return [subst(v) for v in x]
            return x
        fn["body"] = subst(body)
    return n


def split_tuple_lets(body):
    """D4  `let (a, b) = (e1, e2);`  ->  `let a = e1; let b = e2;`  (same evaluation order)"""
    n = 0
    for b in _walk(body):
        if b.get("k") != "block":
            continue
        new = []
        for s in b["stmts"]:
            init = s.get("init") if s.get("k") == "let" else None
            while init is not None and init.get("k") == "blk" and not init["b"]["stmts"] and init["b"]["tail"] is not None:
                init = init["b"]["tail"]
            if (s.get("k") == "let" and s.get("els") is None and s["pat"].get("k") == "tuple" and init is not None and init.get("k") == "tup"
                    and len(init["xs"]) == len(s["pat"]["ps"]) and all(q.get("k") in ("bind", "wild") for q in s["pat"]["ps"])):
                for q, e in zip(s["pat"]["ps"], init["xs"]):
                    if q.get("k") == "wild":
                        new.append({"k": "let", "pat": {"k": "wild"}, "init": e, "els": None, "line": s.get("line")})
                    else:
                        new.append({"k": "let", "pat": q, "init": e, "els": None, "line": s.get("line")})
                n += 1
            elif (s.get("k") == "let" and s.get("els") is None and s["pat"].get("k") == "struct" and init is not None and init.get("k") == "struct"
                  and s["pat"].get("fs") and all(q.get("k") in ("bind", "wild") for _, q in s["pat"]["fs"])
                  and {a_ for a_, _ in s["pat"]["fs"]} <= {a_ for a_, _ in init.get("fs", [])} and not init.get("base")
                  and (str(init.get("path", "")).rsplit("::", 1)[-1] == str(s["pat"].get("path", "")).rsplit("::", 1)[-1] or str(init.get("path", "")).startswith("Self"))):
                # `let S { a, b } = S { a: e1, b: e2 };`  ->  one `let` per field, in the literal's evaluation order
                want = dict((a_, q) for a_, q in s["pat"]["fs"])
                for a_, e in init["fs"]:
                    q = want.get(a_, {"k": "wild"})
                    new.append({"k": "let", "pat": q if q.get("k") == "bind" else {"k": "wild"}, "init": e, "els": None, "line": s.get("line")})
                n += 1
            else:
                new.append(s)
        b["stmts"] = new
    return n


def inline_local_closures(fn, counter):
    """D5  `let f = |p| body; .. f(a) ..`  ->  `.. { let p = a; body } ..` when every use of `f` is a direct call
    (the closure is a local function; captured variables keep their identity because ids are per function)."""
    from . import inline as _inl
    body = fn.get("body")
    n = 0
    for b in list(_walk(body)):
        if b.get("k") != "block":
            continue
        for s in list(b["stmts"]):
            if not (s.get("k") == "let" and s.get("init") is not None and s.get("els") is None and s["pat"].get("k") == "bind"
                    and "Mut)" not in str(s["pat"].get("mode"))):
                continue
            init = s["init"]
            while ((init.get("k") == "blk" and not init["b"]["stmts"] and init["b"]["tail"] is not None) or (init.get("k") == "ref" and isinstance(init.get("x"), dict))
                   or (init.get("k") == "call" and str(init.get("callee", "")).startswith(("std::boxed::Box::<T>::new", "alloc::boxed::Box::<T>::new")) and len(init.get("args") or []) == 1)):
                # a reference to / a box around a callable is called like the callable
                init = init["b"]["tail"] if init.get("k") == "blk" else (init["x"] if init.get("k") == "ref" else init["args"][0])
            if init.get("k") == "path" and isinstance(init.get("def"), str) and "::" in init["def"]:
                # `let f = f32::tanh; .. f(a) ..`  ->  `.. a.tanh() ..`   (a function item bound to a local and only ever called)
                hid = s["pat"]["hid"]
                uses = [x for x in _walk(fn["body"]) if x.get("k") == "local" and x.get("hid") == hid]
                callsites = [x for x in _walk(fn["body"]) if x.get("k") == "call" and isinstance(x.get("f"), dict) and x["f"].get("k") == "local" and x["f"].get("hid") == hid]
                if uses and len(uses) == len(callsites):
                    d = init["def"]
                    for x in callsites:
                        if any(m_ in d for m_ in ("<impl f32>::", "<impl f64>::", "<impl usize>::")) and x["args"]:
                            a_ = x["args"]
                            x.pop("f", None)
                            x.update({"k": "mcall", "name": d.rsplit("::", 1)[-1], "callee": d, "recv": a_[0], "args": a_[1:]})
                        else:
                            x["f"] = copy.deepcopy(init)
                            x["callee"] = d
                    b["stmts"] = [t for t in b["stmts"] if t is not s]
                    n += 1
                continue
            if init.get("k") == "match" and _pure_access(init["scrut"]) and all(a.get("guard") is None for a in init["arms"]):
                # `let f = match S { A => Box::new(|p| b1), B => Box::new(|p| b2), _ => panic }; .. f(a) ..`  ->  `.. match S { A => { let p = a; b1 }, .. } ..`
                # (S a side-effect free place that nothing in this function writes: the arm chosen at the call is the arm chosen at the binding)
                def unbox(e):
                    e = _unblk(e)
                    while e is not None and e.get("k") == "call" and str(e.get("callee", "")).startswith(("std::boxed::Box::<T>::new", "alloc::boxed::Box::<T>::new")) and len(e.get("args") or []) == 1:
                        e = _unblk(e["args"][0])
                    return e
                from . import e4 as _e4m
                arms_cl = []
                okm = True
                for a in init["arms"]:
                    b_ = unbox(a["body"])
                    if b_ is not None and b_.get("k") == "closure" and not any(y.get("k") == "ret" for y in _walk(b_["body"])):
                        arms_cl.append((a, b_))
                    elif b_ is not None and (b_.get("k") in ("call", "mcall") and "panic" in str(b_.get("callee", "")) or b_.get("mac") in ("panic", "unimplemented", "unreachable", "todo")):
                        arms_cl.append((a, None))
                    else:
                        okm = False
                hid = s["pat"]["hid"]
                uses = [x for x in _walk(fn["body"]) if x.get("k") == "local" and x.get("hid") == hid]
                callsites = [x for x in _walk(fn["body"]) if x.get("k") == "call" and isinstance(x.get("f"), dict) and x["f"].get("k") == "local" and x["f"].get("hid") == hid]
                if okm and any(c_ is not None for _, c_ in arms_cl) and uses and len(uses) == len(callsites) and _never_written(fn, [r_ for r_ in _place_roots(init["scrut"]) if r_[1] is not None]) \
                        and not (set(h_ for (h_, f_) in _place_roots(init["scrut"]) if f_ is None) & _assigned_locals([fn["body"]])):
                    okx = True

                    def rw(x):
                        nonlocal okx
                        if isinstance(x, list):
                            return [rw(v) for v in x]
                        if not isinstance(x, dict):
                            return x
                        for k_, v in list(x.items()):
                            if isinstance(v, (dict, list)):
                                x[k_] = rw(v)
                        if x.get("k") == "call" and isinstance(x.get("f"), dict) and x["f"].get("k") == "local" and x["f"].get("hid") == hid:
                            new_arms = []
                            for (a, c_) in arms_cl:
                                if c_ is None:
                                    new_arms.append(copy.deepcopy(a))
                                    continue
                                counter[0] += 1
                                e = _inl._expand(copy.deepcopy(x), {"params": c_["params"], "body": c_["body"], "path": "closure:" + str(s["pat"].get("name"))}, 4000 + counter[0])
                                if e is None:
                                    okx = False
                                    return x
                                new_arms.append({**copy.deepcopy({k2: v2 for k2, v2 in a.items() if k2 != "body"}), "body": e})
                            return {"k": "match", "scrut": copy.deepcopy(init["scrut"]), "src": "Normal", "arms": new_arms, "line": x.get("line"), "from_closure_match": True, **({"t": x["t"]} if "t" in x else {})}
                        return x
                    saved = copy.deepcopy(fn["body"])
                    fn["body"] = rw(fn["body"])
                    if not okx:
                        fn["body"] = saved
                        return n
                    for b2 in _walk(fn["body"]):
                        if b2.get("k") == "block":
                            b2["stmts"] = [t for t in b2["stmts"] if not (t.get("k") == "let" and t.get("pat", {}).get("k") == "bind" and t["pat"].get("hid") == hid)]
                    n += 1
                continue
            if init.get("k") != "closure":
                continue
            hid = s["pat"]["hid"]
            uses = [x for x in _walk(fn["body"]) if x.get("k") == "local" and x.get("hid") == hid]
            callsites = [x for x in _walk(fn["body"]) if x.get("k") == "call" and isinstance(x.get("f"), dict) and x["f"].get("k") == "local" and x["f"].get("hid") == hid]
            if uses and len(uses) != len(callsites) and not any(y.get("k") in ("assign", "assignop") for y in _walk(init["body"])):
                # the closure handed on by name (`.map(scalar)`): the name stands for the closure expression itself
                called = {id(x["f"]) for x in callsites}

                def put(x):
                    if isinstance(x, list):
                        return [put(v) for v in x]
                    if not isinstance(x, dict):
                        return x
                    if x.get("k") == "local" and x.get("hid") == hid and id(x) not in called:
                        counter[0] += 1
                        cp = copy.deepcopy(init)
                        off = _inl.STRIDE * (4000 + counter[0])
                        bound = {y["hid"] for y in _walk(cp) if y.get("k") == "bind" and isinstance(y.get("hid"), int)}
                        for y in _walk(cp):
                            if y.get("k") in ("bind", "local") and y.get("hid") in bound:
                                y["hid"] += off
                        return cp
                    for k_, v in list(x.items()):
                        if isinstance(v, (dict, list)) and not (x is s and k_ == "pat"):
                            x[k_] = put(v)
                    return x
                fn["body"] = put(fn["body"])
                uses = [x for x in _walk(fn["body"]) if x.get("k") == "local" and x.get("hid") == hid]
                callsites = [x for x in _walk(fn["body"]) if x.get("k") == "call" and isinstance(x.get("f"), dict) and x["f"].get("k") == "local" and x["f"].get("hid") == hid]
                if not uses:
                    for b2 in _walk(fn["body"]):
                        if b2.get("k") == "block":
                            b2["stmts"] = [t for t in b2["stmts"] if t is not s]
                    n += 1
                    continue
            if not uses or len(uses) != len(callsites):
                continue
            helper = {"params": init["params"], "body": init["body"], "path": "closure:" + str(s["pat"].get("name"))}
            ok = True

            def rewrite(x):
                nonlocal ok
                if isinstance(x, list):
                    return [rewrite(v) for v in x]
                if not isinstance(x, dict):
                    return x
                for k_, v in list(x.items()):
                    if isinstance(v, (dict, list)):
                        x[k_] = rewrite(v)
                if x.get("k") == "call" and isinstance(x.get("f"), dict) and x["f"].get("k") == "local" and x["f"].get("hid") == hid:
                    counter[0] += 1
                    e = _inl._expand(x, helper, 4000 + counter[0])
                    if e is None:
                        ok = False
                        return x
                    return e
                return x
            saved = copy.deepcopy(fn["body"])
            fn["body"] = rewrite(fn["body"])
            if not ok:
                fn["body"] = saved
                return n
            # drop the `let f = ..` (the block objects were rewritten in place: find it again)
            for b2 in _walk(fn["body"]):
                if b2.get("k") == "block":
                    b2["stmts"] = [t for t in b2["stmts"] if not (t.get("k") == "let" and t.get("pat", {}).get("k") == "bind" and t["pat"].get("hid") == hid
                                                                  and t.get("init") is not None and any(y.get("k") == "closure" for y in _walk(t["init"])) )]
            n += 1
    return n


def split_tuple_values(fn):
    """D6  `let d = (e0, e1, ..);` / `let d = S { f: e, .. };` with every use of `d` of the form `d.N` / `d.f`, every component a duplicable pure
    place / literal and nothing the components name written anywhere in the function: each projection is replaced by its component and
    the let is dropped (e.g. the argument tuple of an inlined helper, a struct of copied hyper-parameters)."""
    body = fn.get("body")
    n = 0
    for b in list(_walk(body)):
        if b.get("k") != "block":
            continue
        for s in list(b["stmts"]):
            if not (s.get("k") == "let" and s.get("init") is not None and s.get("els") is None and s["pat"].get("k") == "bind"
                    and "Mut)" not in str(s["pat"].get("mode"))):
                continue
            init = s["init"]
            while init.get("k") == "blk" and not init["b"]["stmts"] and init["b"]["tail"] is not None:
                init = init["b"]["tail"]
            is_struct = init.get("k") == "struct" and init.get("fs") and not init.get("base")
            if not ((init.get("k") == "tup" and init["xs"]) or is_struct):
                continue
            comp_list = init["xs"] if not is_struct else [e for _, e in init["fs"]]
            comp_keys = [str(i) for i in range(len(comp_list))] if not is_struct else [a_ for a_, _ in init["fs"]]

            def dup_ok(e):
                while e is not None and e.get("k") in ("ref", "blk") or (e is not None and e.get("k") == "un" and e.get("op") == "Deref"):
                    if e["k"] == "blk":
                        if e["b"]["stmts"] or e["b"]["tail"] is None:
                            return False
                        e = e["b"]["tail"]
                    else:
                        e = e["x"]
                return e is not None and (e.get("k") in ("local", "lit") or (e.get("k") == "field" and _pure_place(e)))
            if not all(dup_ok(e) for e in comp_list):
                continue
            # the components must still hold the same values where `d.N` is read: nothing they name is written in this function
            roots_ = [r_ for e in comp_list for r_ in _place_roots(e)]
            bare_ = {h for (h, f) in roots_ if f is None} - {h for (h, f) in roots_ if f is not None}
            if not _never_written(fn, [r_ for r_ in roots_ if r_[1] is not None]):
                continue
            if bare_ & _assigned_locals([fn["body"]]):
                continue
            hid = s["pat"]["hid"]
            uses = [x for x in _walk(fn["body"]) if x.get("k") == "local" and x.get("hid") == hid]

            def is_use(x):
                if not (x.get("k") == "field" and isinstance(x.get("b"), dict)):
                    return False
                b0 = x["b"]
                while b0.get("k") in ("ref",) or (b0.get("k") == "un" and b0.get("op") == "Deref"):
                    b0 = b0["x"]
                return b0.get("k") == "local" and b0.get("hid") == hid and str(x.get("f")) in comp_keys
            fields = [x for x in _walk(fn["body"]) if is_use(x)]
            if not uses or len(uses) != len(fields):
                continue
            comps = dict(zip(comp_keys, comp_list))

            def subst(x):
                if isinstance(x, list):
                    return [subst(v) for v in x]
                if not isinstance(x, dict):
                    return x
                if is_use(x):
                    return copy.deepcopy(comps[str(x["f"])])
                for k_, v in list(x.items()):
                    if isinstance(v, (dict, list)):
                        x[k_] = subst(v)
                return x
            fn["body"] = subst(fn["body"])
            for b2 in _walk(fn["body"]):
                if b2.get("k") == "block":
                    b2["stmts"] = [t for t in b2["stmts"] if not (t.get("k") == "let" and t.get("pat", {}).get("k") == "bind" and t["pat"].get("hid") == hid)]
            n += 1
    return n


_ZIP = [0]


def enumerate_to_index(fn, types):
    """D7  `for (i, e) in X.iter().enumerate() { body }`  ->  `for i in 0..X.len() { body[e := X[i]] }` when X is a pure place that the
    body does not assign / borrow mutably as a whole (same elements, same order; the index form is what the loop-nest extractor reads)."""
    n = 0
    usize_t = types.index("usize") if "usize" in types else None
    for lp in list(_walk(fn.get("body"))):
        if lp.get("k") != "for":
            continue
        it = lp["iter"]
        while it.get("k") == "blk" and not it["b"]["stmts"] and it["b"]["tail"] is not None:
            it = it["b"]["tail"]
        if it.get("k") == "mcall" and it.get("name") == "zip" and len(it["args"]) == 1:
            # `for (a, b) in A.iter().zip(B.iter_mut())` over two pure places: index form with a fresh index variable
            def side(e):
                while e.get("k") == "blk" and not e["b"]["stmts"] and e["b"]["tail"] is not None:
                    e = e["b"]["tail"]
                if e.get("k") == "mcall" and e.get("name") in ("iter", "iter_mut") and not e["args"] and _pure_place_idx(e["recv"]):
                    return e["recv"]
                return None
            A, B = side(it["recv"]), side(it["args"][0])
            pat = lp["pat"]
            if A is None or B is None or not (pat.get("k") == "tuple" and len(pat["ps"]) == 2):
                continue
            pa, pb = pat["ps"]
            while pa.get("k") in ("ref", "deref"):
                pa = pa["p"]
            while pb.get("k") in ("ref", "deref"):
                pb = pb["p"]
            if not (pa.get("k") == "bind" and pb.get("k") == "bind" and not pa.get("sub") and not pb.get("sub")):
                continue
            _ZIP[0] += 1
            ih = 9000000 + _ZIP[0]
            idx_local = {"k": "local", "name": "_zi%d" % _ZIP[0], "hid": ih, "t": usize_t, "line": lp.get("line")}
            rep = {pa["hid"]: {"k": "index", "b": copy.deepcopy(A), "i": idx_local, "t": pa.get("t"), "line": lp.get("line")},
                   pb["hid"]: {"k": "index", "b": copy.deepcopy(B), "i": idx_local, "t": pb.get("t"), "line": lp.get("line")}}

            def subst2(x):
                if isinstance(x, list):
                    return [subst2(v) for v in x]
                if not isinstance(x, dict):
                    return x
                if x.get("k") == "local" and x.get("hid") in rep:
                    return copy.deepcopy(rep[x["hid"]])
                for k_, v in list(x.items()):
                    if isinstance(v, (dict, list)):
                        x[k_] = subst2(v)
                return x
            lp["body"] = subst2(lp["body"])
            lp["pat"] = {"k": "bind", "name": "_zi%d" % _ZIP[0], "hid": ih, "mode": "BindingMode(No, Not)", "t": usize_t}
            lp["iter"] = {"k": "struct", "path": "std::ops::Range", "mac": "Desugaring(RangeExpr)", "line": lp.get("line"),
                          "fs": [["start", {"k": "lit", "v": "0", "t": usize_t}],
                                 ["end", {"k": "mcall", "name": "len", "callee": "std::vec::Vec::<T, A>::len", "recv": copy.deepcopy(A), "args": [], "t": usize_t, "line": lp.get("line")}]]}
            lp["from_zip"] = True
            n += 1
            continue
        if (it.get("k") == "mcall" and it.get("name") in ("iter", "iter_mut") and not it["args"] and _pure_place_idx(it["recv"])
                and any(y.get("k") == "mcall" and y.get("name") == "push" for y in _walk(lp["body"]))):
            # `for e in X.iter() { .. out.push(..) }` over a pure place: the index form `for i in 0..X.len()` with e := X[i] (the element-by-element
            # construction of `out` is then an indexed store for the loop-nest extractor)
            pe = lp["pat"]
            while pe.get("k") in ("ref", "deref"):
                pe = pe["p"]
            X = it["recv"]
            xr = _root_of_place(X)
            if pe.get("k") == "bind" and not pe.get("sub") and xr is not None and xr["hid"] not in _assigned_locals([lp["body"]]):
                _ZIP[0] += 1
                ih = 9000000 + _ZIP[0]
                idx_local = {"k": "local", "name": "_zi%d" % _ZIP[0], "hid": ih, "t": usize_t, "line": lp.get("line")}
                rep1 = {pe["hid"]: {"k": "index", "b": copy.deepcopy(X), "i": idx_local, "t": pe.get("t"), "line": lp.get("line")}}

                def subst1(x):
                    if isinstance(x, list):
                        return [subst1(v) for v in x]
                    if not isinstance(x, dict):
                        return x
                    if x.get("k") == "local" and x.get("hid") in rep1:
                        return copy.deepcopy(rep1[x["hid"]])
                    for k_, v in list(x.items()):
                        if isinstance(v, (dict, list)):
                            x[k_] = subst1(v)
                    return x
                lp["body"] = subst1(lp["body"])
                lp["pat"] = {"k": "bind", "name": "_zi%d" % _ZIP[0], "hid": ih, "mode": "BindingMode(No, Not)", "t": usize_t}
                lp["iter"] = {"k": "struct", "path": "std::ops::Range", "mac": "Desugaring(RangeExpr)", "line": lp.get("line"),
                              "fs": [["start", {"k": "lit", "v": "0", "t": usize_t}],
                                     ["end", {"k": "mcall", "name": "len", "callee": "std::vec::Vec::<T, A>::len", "recv": copy.deepcopy(X), "args": [], "t": usize_t, "line": lp.get("line")}]]}
                lp["from_iter"] = True
                n += 1
            continue
        if not (it.get("k") == "mcall" and it.get("name") == "enumerate" and not it["args"]):
            continue
        src = it["recv"]
        while src.get("k") == "blk" and not src["b"]["stmts"] and src["b"]["tail"] is not None:
            src = src["b"]["tail"]
        if not (src.get("k") == "mcall" and src.get("name") in ("iter", "iter_mut") and not src["args"]):
            continue
        X = src["recv"]
        if not _pure_place_idx(X):
            continue
        pat = lp["pat"]
        if not (pat.get("k") == "tuple" and len(pat["ps"]) == 2):
            continue
        pi, pe = pat["ps"]
        while pe.get("k") in ("ref", "deref"):
            pe = pe["p"]
        if not (pi.get("k") == "bind" and pe.get("k") in ("bind", "wild") and not pe.get("sub")):
            continue
        r = _root(X) if X.get("k") != "index" else None
        # the collection must not be reassigned inside the body
        root = X
        while root is not None and root.get("k") in ("field", "index", "ref", "un", "blk"):
            root = root["b"] if root["k"] in ("field", "index") else (root["x"] if root["k"] in ("ref", "un") else root["b"]["tail"])
        if root is None or root.get("k") != "local":
            continue
        bad = False
        for x in _walk(lp["body"]):
            if x.get("k") == "assign":
                l = x["l"]
                while l is not None and l.get("k") == "blk":
                    l = l["b"]["tail"]
                if l is not None and l.get("k") == "local" and l.get("hid") == root["hid"]:
                    bad = True
        if bad:
            continue
        idx_local = {"k": "local", "name": pi["name"], "hid": pi["hid"], "t": pi.get("t"), "line": lp.get("line")}
        elem = {"k": "index", "b": copy.deepcopy(X), "i": idx_local, "t": pe.get("t"), "line": lp.get("line")}
        if pe.get("k") == "bind":
            eh = pe["hid"]

            def subst(x):
                if isinstance(x, list):
                    return [subst(v) for v in x]
                if not isinstance(x, dict):
                    return x
                if x.get("k") == "local" and x.get("hid") == eh:
                    return copy.deepcopy(elem)
                for k_, v in list(x.items()):
                    if isinstance(v, (dict, list)):
                        x[k_] = subst(v)
                return x
            lp["body"] = subst(lp["body"])
        lp["pat"] = pi
        lp["iter"] = {"k": "struct", "path": "std::ops::Range", "mac": "Desugaring(RangeExpr)", "line": lp.get("line"),
                      "fs": [["start", {"k": "lit", "v": "0", "t": usize_t}],
                             ["end", {"k": "mcall", "name": "len", "callee": "std::vec::Vec::<T, A>::len", "recv": copy.deepcopy(X), "args": [], "t": usize_t, "line": lp.get("line")}]]}
        lp["from_enumerate"] = True
        n += 1
    return n


def _pure_place_idx(n, depth=0):
    if n is None or depth > 6:
        return False
    k = n.get("k")
    if k == "local":
        return True
    if k == "field":
        return _pure_place_idx(n["b"], depth + 1)
    if k == "index":
        return _pure_place_idx(n["b"], depth + 1) and (_pure_place_idx(n["i"], depth + 1) or _index_arith(n["i"]))
    if k == "ref":
        return _pure_place_idx(n["x"], depth + 1)
    if k == "un" and n.get("op") == "Deref":
        return _pure_place_idx(n["x"], depth + 1)
    if k == "blk" and not n["b"]["stmts"] and n["b"]["tail"] is not None:
        return _pure_place_idx(n["b"]["tail"], depth + 1)
    return False


def _index_arith(n, depth=0):
    """`j + 1`, `i * n + k`: integer arithmetic over locals and literals"""
    n = _unblk(n)
    if n is None or depth > 4:
        return False
    if n.get("k") in ("local", "lit"):
        return True
    if n.get("k") == "cast":
        return _index_arith(n["x"], depth + 1)
    if n.get("k") == "bin" and n.get("op") in ("Add", "Sub", "Mul"):
        return _index_arith(n["l"], depth + 1) and _index_arith(n["r"], depth + 1)
    return False


_NUM = ("f32", "f64", "usize", "u8", "u16", "u32", "u64", "i8", "i16", "i32", "i64", "isize", "bool")


def _unblk(n):
    while n is not None and n.get("k") == "blk" and not n["b"]["stmts"] and n["b"]["tail"] is not None and n.get("lbl") is None:
        n = n["b"]["tail"]
    return n


def _root_of_place(n):
    n = _unblk(n)
    while n is not None and n.get("k") in ("field", "index", "ref", "un", "mcall", "blk"):
        k = n["k"]
        if k in ("field", "index"):
            n = n["b"]
        elif k in ("ref", "un"):
            n = n["x"]
        elif k == "mcall":
            if n["name"] in ("iter", "clone", "to_vec", "cloned", "copied", "len"):
                return None
            n = n["recv"]
        else:
            n = _unblk(n)
            if n is not None and n.get("k") == "blk":
                return None
        n = _unblk(n) if n is not None and n.get("k") == "blk" else n
    return n if n is not None and n.get("k") == "local" else None


_LEN_PRESERVING = ("swap", "sort", "sort_by", "sort_unstable", "reverse", "fill", "iter_mut", "get_mut", "last_mut", "first_mut", "as_mut_slice", "rotate_left", "rotate_right")


def _mutations(body, types):
    """{hid: kinds} of the locals assigned / mutably borrowed under body; kind 'elem' = assignment to a numeric element through an index"""
    out = {}

    def ty(x, key="t"):
        i = x.get(key)
        return types[i] if isinstance(i, int) and i < len(types) else ""
    for x in _walk(body):
        k = x.get("k")
        if k in ("assign", "assignop"):
            l = _unblk(x["l"])
            r = _root_of_place(l)
            if r is not None:
                kind = "elem" if l.get("k") == "index" and ty(l) in _NUM else "whole"
                out.setdefault(r["hid"], set()).add(kind)
        elif k == "mcall":
            rv = x["recv"]
            if ty(rv, "ta").startswith("&mut") or (ty(rv, "ta") == "" and ty(rv).startswith("&mut")):
                r = _root_of_place(rv)
                if r is not None:
                    # slice methods that permute / overwrite elements in place never change a length
                    out.setdefault(r["hid"], set()).add("elem" if x.get("name") in _LEN_PRESERVING else "whole")
        elif k == "ref" and x.get("mut"):
            r = _root_of_place(x["x"])
            if r is not None:
                out.setdefault(r["hid"], set()).add("whole")
    return out


def _pure_bound(n, depth=0):
    """loop bound that is cheap and side-effect free: places, literals, `.len()`, arithmetic, casts"""
    n = _unblk(n)
    if n is None or depth > 8:
        return False
    k = n.get("k")
    if k in ("local", "lit", "path"):
        return True
    if k in ("field",):
        return _pure_bound(n["b"], depth + 1)
    if k == "index":
        return _pure_bound(n["b"], depth + 1) and _pure_bound(n["i"], depth + 1)
    if k in ("ref", "un", "cast"):
        return _pure_bound(n["x"], depth + 1)
    if k == "bin":
        return _pure_bound(n["l"], depth + 1) and _pure_bound(n["r"], depth + 1)
    if k == "mcall" and n["name"] == "len" and not n["args"]:
        return _pure_bound(n["recv"], depth + 1)
    return False


def _len_only(n, hid, under_len=False):
    """every occurrence of local `hid` in n sits below the receiver of a `.len()` call"""
    if isinstance(n, list):
        return all(_len_only(v, hid, under_len) for v in n)
    if not isinstance(n, dict):
        return True
    if n.get("k") == "local" and n.get("hid") == hid:
        return under_len
    if n.get("k") == "mcall" and n.get("name") == "len":
        return _len_only(n["recv"], hid, True)
    return all(_len_only(v, hid, under_len) for key, v in n.items() if isinstance(v, (dict, list)))


def _mentions(n, hid):
    return any(x.get("k") in ("local", "bind") and x.get("hid") == hid for x in _walk(n))


def _countdown(blkn, stmts, items, b, lp, iff, iv, types):
    ih = iv["hid"]
    th = iff["th"]
    thb = th["b"] if th.get("k") == "blk" else None
    if thb is None:
        return False
    body_items = list(thb["stmts"]) + ([thb["tail"]] if thb.get("tail") is not None else [])
    if len(body_items) < 1:
        return False
    first = _unblk(body_items[0])
    dec = False
    if first is not None and first.get("k") == "assignop" and first["op"].startswith("Sub"):
        l_, r_ = _unblk(first["l"]), _unblk(first["r"])
        dec = l_.get("k") == "local" and l_["hid"] == ih and r_.get("k") == "lit" and str(r_.get("v")).replace("usize", "").rstrip("_") == "1"
    elif first is not None and first.get("k") == "assign":
        l_, r_ = _unblk(first["l"]), _unblk(first["r"])
        if l_.get("k") == "local" and l_["hid"] == ih and r_.get("k") == "bin" and r_["op"] == "Sub":
            a_, b_ = _unblk(r_["l"]), _unblk(r_["r"])
            dec = a_.get("k") == "local" and a_["hid"] == ih and b_.get("k") == "lit" and str(b_.get("v")).replace("usize", "").rstrip("_") == "1"
    if not dec:
        return False
    rest = body_items[1:]
    if ih in _mutations(rest, types):
        return False
    lid = lp.get("loop_id")
    if any(x.get("k") == "continue" and x.get("label") in (lid, None) for x in _walk(rest)):
        pass        # `continue` re-tests `i > 0` and decrements first: same as the next iteration of the for loop
    a = None
    for j in range(b - 1, -1, -1):
        s = items[j]
        if s.get("k") == "let" and s["pat"].get("k") == "bind" and s["pat"]["hid"] == ih and s.get("init") is not None and not s.get("els"):
            a = j
            break
        if _mentions(s, ih):
            return False
    if a is None:
        return False
    start = _unblk(items[a]["init"])
    if not _pure_bound(start):
        return False
    muts_between = _mutations(items[a + 1:b], types)
    muts_body = {}
    if any(x.get("k") == "local" and (x["hid"] in muts_between) for x in _walk(start)):
        return False
    if any(_mentions(s, ih) for s in items[b + 1:]):
        return False
    usize_t = types.index("usize") if "usize" in types else None
    pat = dict(items[a]["pat"])
    pat["mode"] = "BindingMode(No, Not)"
    line = lp.get("line")
    rng = {"k": "struct", "path": "std::ops::Range", "mac": "Desugaring(RangeExpr)", "line": line, "fs": [["start", {"k": "lit", "v": "0", "t": usize_t}], ["end", start]]}
    newlp = {"k": "for", "pat": pat, "loop_id": lid, "line": line, "from_while": "countdown",
             "body": {"k": "blk", "b": {"k": "block", "stmts": rest, "tail": None}, "line": th.get("line")},
             "iter": {"k": "mcall", "name": "rev", "callee": "std::iter::Iterator::rev", "recv": rng, "args": [], "line": line}}
    if "id" in lp:
        newlp["id"] = lp["id"]
    if b < len(stmts):
        stmts[b] = newlp
    else:
        blkn["tail"] = None
        stmts.append(newlp)
    del stmts[a]
    return True


def _fillup(blkn, stmts, items, b, lp, iff, vec, end, types):
    vh = vec["hid"]
    th = iff["th"]
    thb = th["b"] if th.get("k") == "blk" else None
    if thb is None:
        return False
    body_items = list(thb["stmts"]) + ([thb["tail"]] if thb.get("tail") is not None else [])
    if not body_items:
        return False
    last = _unblk(body_items[-1])
    if not (last is not None and last.get("k") == "mcall" and last.get("name") == "push" and len(last["args"]) == 1 and _unblk(last["recv"]) is not None
            and _unblk(last["recv"]).get("k") == "local" and _unblk(last["recv"])["hid"] == vh):
        return False
    if any(_mentions(x, vh) for x in body_items[:-1]) or _mentions(last["args"][0], vh):
        return False
    lid = lp.get("loop_id")
    if any(y.get("k") in ("break", "continue") and y.get("label") in (lid, None) for x in body_items for y in _walk(x)) or any(y.get("k") == "ret" for x in body_items for y in _walk(x)):
        return False
    if not _pure_bound(end) or _mentions(end, vh):
        return False
    muts = _mutations(body_items, types)
    if any(y.get("k") == "local" and y["hid"] in muts for y in _walk(end)):
        return False
    # the vector is declared empty earlier in this block and untouched in between
    a = None
    for j in range(b - 1, -1, -1):
        s = items[j]
        if s.get("k") == "let" and s["pat"].get("k") == "bind" and s["pat"]["hid"] == vh:
            init = _unblk(s.get("init"))
            if init is not None and init.get("k") == "call" and "Vec" in str(init.get("callee")) and str(init.get("callee")).rsplit("::", 1)[-1] in ("new", "with_capacity"):
                a = j
            break
        if _mentions(s, vh):
            return False
    if a is None:
        return False
    usize_t = types.index("usize") if "usize" in types else None
    line = lp.get("line")
    newlp = {"k": "for", "pat": {"k": "wild"}, "loop_id": lid, "line": line, "from_while": "fillup",
             "body": {"k": "blk", "b": {"k": "block", "stmts": body_items, "tail": None}, "line": th.get("line")},
             "iter": {"k": "struct", "path": "std::ops::Range", "mac": "Desugaring(RangeExpr)", "line": line, "fs": [["start", {"k": "lit", "v": "0", "t": usize_t}], ["end", end]]}}
    if "id" in lp:
        newlp["id"] = lp["id"]
    if b < len(stmts):
        stmts[b] = newlp
    else:
        blkn["tail"] = None
        stmts.append(newlp)
    return True


def slice_pattern_matches(fn):
    """D44  a `match` on a slice / vector S (a side-effect free place, possibly through `.as_slice()`, `&`, `[..]`) whose arms are slice patterns
            `[]`, `[.., p]`, `[p, ..]`, `[first, rest @ ..]`, `[a, b]`, `_`  ->  the if-chain on `S.len()` with the bindings as element accesses
            (`[.., p]` binds `S.last().unwrap()`, `[first, ..]` binds `&S[0]`, `rest @ ..` binds `&S[1..]`); first-match order kept, the last arm of an
            exhaustive match needs no test."""
    n = 0

    def rw(x):
        nonlocal n
        if isinstance(x, list):
            return [rw(v) for v in x]
        if not isinstance(x, dict):
            return x
        for k_, v in list(x.items()):
            if isinstance(v, (dict, list)):
                x[k_] = rw(v)
        if x.get("k") != "match" or x.get("mac") or any(a.get("guard") is not None for a in x["arms"]):
            return x
        pats = []
        for a in x["arms"]:
            q = a["pat"]
            while q.get("k") in ("ref", "deref"):
                q = q["p"]
            pats.append(q)
        if not any(q.get("k") == "slice" for q in pats) or not all(q.get("k") in ("slice", "wild") for q in pats):
            return x
        S = _unblk(x["scrut"])
        while S is not None and ((S.get("k") == "mcall" and S.get("name") in ("as_slice", "as_mut_slice", "iter") and not S["args"]) or S.get("k") == "ref"
                                 or (S.get("k") == "un" and S.get("op") == "Deref")):
            S = _unblk(S["recv"] if S.get("k") == "mcall" else S["x"])
        if S is None or not _pure_access(S):
            return x
        line = x.get("line")
        mk = lambda: copy.deepcopy(S)
        LEN = lambda: {"k": "mcall", "name": "len", "callee": "std::vec::Vec::<T, A>::len", "recv": mk(), "args": [], "line": line}
        lit = lambda v: {"k": "lit", "v": str(v), "line": line}
        branches = []
        for a, q in zip(x["arms"], pats):
            if q.get("k") == "wild":
                branches.append((None, [], a["body"]))
                continue
            nb, na, mid = len(q["before"]), len(q["after"]), q.get("mid")
            lets = []
            okp = True
            for i_, e in enumerate(q["before"]):
                if e.get("k") == "wild":
                    continue
                if e.get("k") != "bind":
                    okp = False
                    break
                lets.append({"k": "let", "pat": e, "init": {"k": "ref", "mut": False, "x": {"k": "index", "b": mk(), "i": lit(i_), "line": line}, "line": line}, "els": None, "line": line})
            for j_, e in enumerate(q["after"]):
                if e.get("k") == "wild":
                    continue
                if e.get("k") != "bind":
                    okp = False
                    break
                if j_ == na - 1:
                    last = {"k": "mcall", "name": "last", "callee": "core::slice::<impl [T]>::last", "recv": mk(), "args": [], "line": line}
                    init = {"k": "mcall", "name": "unwrap", "callee": "std::option::Option::<T>::unwrap", "recv": last, "args": [], "line": line}
                else:
                    idx = {"k": "bin", "op": "Sub", "l": LEN(), "r": lit(na - j_), "line": line}
                    init = {"k": "ref", "mut": False, "x": {"k": "index", "b": mk(), "i": idx, "line": line}, "line": line}
                lets.append({"k": "let", "pat": e, "init": init, "els": None, "line": line})
            if mid is not None and mid.get("k") == "bind":
                sub = mid.get("sub")
                rng = {"k": "struct", "path": "std::ops::RangeFrom" if na == 0 else "std::ops::Range", "fs": [["start", lit(nb)]] + ([] if na == 0 else [["end", {"k": "bin", "op": "Sub", "l": LEN(), "r": lit(na), "line": line}]]), "line": line}
                b2 = {k2: v2 for k2, v2 in mid.items() if k2 != "sub"}
                lets.append({"k": "let", "pat": b2, "init": {"k": "ref", "mut": False, "x": {"k": "index", "b": mk(), "i": rng, "line": line}, "line": line}, "els": None, "line": line})
            elif mid is not None and mid.get("k") != "wild":
                okp = False
            if not okp:
                return x
            if mid is None:
                if nb + na == 0:
                    cond = {"k": "mcall", "name": "is_empty", "callee": "std::vec::Vec::<T, A>::is_empty", "recv": mk(), "args": [], "line": line}
                else:
                    cond = {"k": "bin", "op": "Eq", "l": LEN(), "r": lit(nb + na), "line": line}
            else:
                cond = None if nb + na == 0 else {"k": "bin", "op": "Ge", "l": LEN(), "r": lit(nb + na), "line": line}
            branches.append((cond, lets, a["body"]))

        def body_of(lets, b):
            if not lets:
                return b if b.get("k") == "blk" else {"k": "blk", "b": {"k": "block", "stmts": [], "tail": b}, "line": line}
            if b.get("k") == "blk" and b.get("lbl") is None:
                return {"k": "blk", "b": {"k": "block", "stmts": lets + list(b["b"]["stmts"]), "tail": b["b"].get("tail")}, "line": line}
            return {"k": "blk", "b": {"k": "block", "stmts": lets, "tail": b}, "line": line}
        out = None
        for i_, (cond, lets, b) in enumerate(reversed(branches)):
            if out is None or cond is None:
                out = body_of(lets, b)        # the last arm of an exhaustive match (or an irrefutable arm) needs no test
                continue
            out = {"k": "if", "c": cond, "th": body_of(lets, b), "el": out, "line": line, "from_slice_match": True}
        for key in ("t", "ta"):
            if key in x and isinstance(out, dict):
                out[key] = x[key]
        n += 1
        return out
    if fn.get("body") is not None:
        fn["body"] = rw(fn["body"])
    return n


def tuple_if_let(fn):
    """D45  `if let (P1, P2, ..) = (e1, e2, ..) { T }` (no else; the e_i side-effect free)  ->  the nest of tests of the components, left to right:
            `true` -> `if e_i`, `false` -> `if !e_i`, `_` / a plain binding -> nothing / `let`, any other pattern -> `if let P_i = e_i`."""
    n = 0

    def rw(x):
        nonlocal n
        if isinstance(x, list):
            return [rw(v) for v in x]
        if not isinstance(x, dict):
            return x
        for k_, v in list(x.items()):
            if isinstance(v, (dict, list)):
                x[k_] = rw(v)
        if x.get("k") != "if" or x.get("el") is not None:
            return x
        c = _unblk(x["c"])
        if c is None or c.get("k") != "letx":
            return x
        pat = c["pat"]
        while pat.get("k") in ("ref", "deref"):
            pat = pat["p"]
        init = _unblk(c["init"])
        if pat.get("k") != "tuple" or init is None or init.get("k") != "tup" or len(pat["ps"]) != len(init["xs"]) or not all(_pure_expr(e) or _pure_access(e) for e in init["xs"]):
            return x
        if not any(q.get("k") == "plit" for q in pat["ps"]):
            return x
        line = x.get("line")
        inner = x["th"]
        for q, e in reversed(list(zip(pat["ps"], init["xs"]))):
            q0 = q
            while q0.get("k") in ("ref", "deref"):
                q0 = q0["p"]
            wrap = lambda node: {"k": "blk", "b": {"k": "block", "stmts": [node], "tail": None}, "line": line}
            if q0.get("k") == "wild":
                continue
            if q0.get("k") == "plit" and str(q0.get("v")) in ("true", "false"):
                cond = e if str(q0["v"]) == "true" else {"k": "un", "op": "Not", "x": e, "line": line}
                inner = wrap({"k": "if", "c": cond, "th": inner, "el": None, "line": line})
            elif q0.get("k") == "bind" and not q0.get("sub"):
                body = inner if inner.get("k") == "blk" and inner.get("lbl") is None else wrap(inner)
                inner = {"k": "blk", "b": {"k": "block", "stmts": [{"k": "let", "pat": q, "init": e, "els": None, "line": line}] + list(body["b"]["stmts"]), "tail": body["b"].get("tail")}, "line": line}
            else:
                inner = wrap({"k": "if", "c": {"k": "letx", "pat": q, "init": e, "line": line}, "th": inner, "el": None, "line": line})
        n += 1
        if inner.get("k") == "blk" and len(inner["b"]["stmts"]) == 1 and inner["b"].get("tail") is None and inner["b"]["stmts"][0].get("k") == "if":
            return inner["b"]["stmts"][0]
        return inner
    if fn.get("body") is not None:
        fn["body"] = rw(fn["body"])
    return n


def ufcs_calls(fn, fns):
    """D46  `Type::method(recv, args..)` (a call of a crate method through its path, e.g. a method handed to a generic helper as `Tensor::add_inplace`)
            ->  `recv.method(args..)`"""
    n = 0
    for x in _walk(fn.get("body")):
        if x.get("k") != "call" or not x.get("args"):
            continue
        c = x.get("callee")
        if not isinstance(c, str):
            continue
        c0 = c[5:] if c.startswith("Self:") else c
        f = fns.get(c0)
        if f is None or f.get("kind") != "AssocFn" or not f.get("params"):
            continue
        p0 = f["params"][0]
        while p0 is not None and p0.get("k") in ("ref", "deref"):
            p0 = p0["p"]
        if p0 is None or p0.get("k") != "bind" or p0.get("name") != "self":
            continue
        recv = x["args"][0]
        r0 = _unblk(recv)
        was_mut = False
        while r0 is not None and r0.get("k") == "ref" and isinstance(r0.get("x"), dict):
            was_mut = was_mut or bool(r0.get("mut"))
            r0 = _unblk(r0["x"])         # the auto-ref of method-call syntax
        if r0 is None:
            continue
        tys = _TYPES[0] or []
        if was_mut and r0.get("t") is not None and r0["t"] < len(tys) and ("&mut " + tys[r0["t"]]) in tys:
            r0 = dict(r0)
            r0["ta"] = tys.index("&mut " + tys[r0["t"]])      # the adjusted (auto-borrowed) type of the receiver, as rustc records it for `recv.method()`
        rest = x["args"][1:]
        x.pop("f", None)
        x.update({"k": "mcall", "name": c0.rsplit("::", 1)[-1], "callee": c0, "recv": r0, "args": rest, "from_ufcs": True})
        n += 1
    return n


def rev_iter_next_to_pop(fn):
    """D47  `let mut it = v.into_iter().rev(); .. it.next() ..` (v a local vector not used afterwards, `it` used only through `next()`)
            ->  `.. v.pop() ..`      (the reversed owning iterator hands out the elements last to first, as `pop` does)"""
    n = 0
    tys = _TYPES[0] or []
    for b in list(_walk(fn.get("body"))):
        if b.get("k") != "block":
            continue
        for i, st in enumerate(list(b["stmts"])):
            init = _unblk(st.get("init")) if st.get("k") == "let" and not st.get("els") and st["pat"].get("k") == "bind" else None
            if init is None or init.get("k") != "mcall" or init.get("name") != "rev" or init["args"]:
                continue
            i1 = _unblk(init["recv"])
            if i1 is None or i1.get("k") != "mcall" or i1.get("name") != "into_iter" or i1["args"]:
                continue
            v = _unblk(i1["recv"])
            if v is None or v.get("k") != "local":
                continue
            ih = st["pat"]["hid"]
            uses = [x for x in _walk(fn["body"]) if x.get("k") == "local" and x.get("hid") == ih]
            nexts = [x for x in _walk(fn["body"]) if x.get("k") == "mcall" and x.get("name") == "next" and not x["args"] and _unblk(x["recv"]) is not None
                     and _unblk(x["recv"]).get("k") == "local" and _unblk(x["recv"])["hid"] == ih]
            if not uses or len(uses) != len(nexts):
                continue
            later = b["stmts"][i + 1:] + ([b["tail"]] if b.get("tail") is not None else [])
            if any(_mentions(x, v["hid"]) for x in later):
                continue
            for x in nexts:
                rv = {"k": "local", "name": v["name"], "hid": v["hid"], "t": v.get("t"), "line": x.get("line")}
                if v.get("t") is not None and v["t"] < len(tys) and ("&mut " + tys[v["t"]]) in tys:
                    rv["ta"] = tys.index("&mut " + tys[v["t"]])
                x.update({"name": "pop", "callee": "std::vec::Vec::<T, A>::pop", "recv": rv, "from_rev_iter": True})
            b["stmts"] = [t for t in b["stmts"] if t is not st]
            # the vector is now popped from: its binding must be mutable
            for y in list(_walk(fn.get("params") or [])) + list(_walk(fn["body"])):
                if y.get("k") == "bind" and y.get("hid") == v["hid"]:
                    y["mode"] = "BindingMode(No, Mut)"
            n += 1
    return n


def repeat_take_collect(fn):
    """D48  `std::iter::repeat(x).take(n).collect()`  ->  `vec![x; n]`  (n clones of x either way)"""
    n = 0
    for x in _walk(fn.get("body")):
        if x.get("k") != "mcall" or x.get("name") != "collect" or x["args"]:
            continue
        tk = _unblk(x["recv"])
        if tk is None or tk.get("k") != "mcall" or tk.get("name") != "take" or len(tk["args"]) != 1:
            continue
        rp = _unblk(tk["recv"])
        if rp is None or rp.get("k") != "call" or not str(rp.get("callee", "")).endswith("iter::repeat") or len(rp["args"]) != 1:
            continue
        line = x.get("line")
        keep = {k_: x[k_] for k_ in ("t", "ta", "id", "line") if k_ in x}
        elem, cnt = rp["args"][0], tk["args"][0]
        x.clear()
        x.update({"k": "call", "callee": "std::vec::from_elem", "f": {"k": "path", "def": "std::vec::from_elem", "line": line}, "args": [elem, cnt], "from_repeat": True, **keep})
        n += 1
    return n


_SS = [0]


def split_local_structs(fn, adts):
    """D49  `let mut s = S { f: e, .. }` (optionally `..Default::default()` for a struct whose other fields are vectors / options) where every use
            of `s` is a field access `s.f`  ->  one local per field (scalar replacement of the aggregate: a private bundle of records used
            field by field is its fields)."""
    n = 0
    tys = _TYPES[0] or []
    for b in list(_walk(fn.get("body"))):
        if b.get("k") != "block":
            continue
        for st in list(b["stmts"]):
            if not (st.get("k") == "let" and not st.get("els") and st["pat"].get("k") == "bind" and not st["pat"].get("sub") and st.get("init") is not None):
                continue
            init = _unblk(st["init"])
            if init is None or init.get("k") != "struct":
                continue
            path = str(init.get("path", ""))
            path = path[5:] if path.startswith("Self:") else path
            adt = (adts or {}).get(path)
            if adt is None or adt.get("kind") != "struct" or not adt.get("variants"):
                continue
            fields = [(f_["name"], f_.get("ty", "")) for f_ in adt["variants"][0]["fields"]]
            given = dict((a_, e_) for a_, e_ in init["fs"])
            base = _unblk(init.get("base")) if init.get("base") is not None else None
            if base is not None and not (base.get("k") == "call" and str(base.get("callee", "")) == "std::default::Default::default" and not base.get("args")):
                continue
            line = st.get("line")

            def default_of(ty):
                if ty.startswith("std::vec::Vec<"):
                    return {"k": "call", "callee": "std::vec::Vec::<T>::new", "f": {"k": "path", "def": "std::vec::Vec::<T>::new", "line": line}, "args": [], "line": line}
                if ty.startswith("std::option::Option<"):
                    return {"k": "path", "def": "std::prelude::v1::None", "line": line}
                return None
            vals = {}
            okf = True
            for nm, ty in fields:
                if nm in given:
                    vals[nm] = given[nm]
                elif base is not None and default_of(ty) is not None:
                    vals[nm] = default_of(ty)
                else:
                    okf = False
            if not okf:
                continue
            sh = st["pat"]["hid"]

            def base_is_s(x):
                b0 = x.get("b") if isinstance(x, dict) else None
                while isinstance(b0, dict) and (b0.get("k") == "ref" or (b0.get("k") == "un" and b0.get("op") == "Deref") or (b0.get("k") == "blk" and not b0["b"]["stmts"] and b0["b"].get("tail") is not None)):
                    b0 = b0["x"] if b0["k"] != "blk" else b0["b"]["tail"]
                return isinstance(b0, dict) and b0.get("k") == "local" and b0.get("hid") == sh
            uses = [x for x in _walk(fn["body"]) if x.get("k") == "local" and x.get("hid") == sh]
            faccs = [x for x in _walk(fn["body"]) if x.get("k") == "field" and base_is_s(x) and x.get("f") in vals]
            if not uses or len(uses) != len(faccs):
                continue
            hids = {}
            for nm, ty in fields:
                _SS[0] += 1
                hids[nm] = 9960000 + _SS[0]
            tindex = {nm: (tys.index(ty) if ty in tys else None) for nm, ty in fields}

            def subst(x):
                if isinstance(x, list):
                    return [subst(v) for v in x]
                if not isinstance(x, dict):
                    return x
                if x.get("k") == "field" and base_is_s(x) and x.get("f") in vals:
                    r = {"k": "local", "name": x["f"], "hid": hids[x["f"]], "t": tindex.get(x["f"]), "line": x.get("line")}
                    if "ta" in x:
                        r["ta"] = x["ta"]
                    return r
                for k_, v in list(x.items()):
                    if isinstance(v, (dict, list)):
                        x[k_] = subst(v)
                return x
            order = [a_ for a_, _ in init["fs"]] + [nm for nm, _ in fields if nm not in given]
            lets = [{"k": "let", "pat": {"k": "bind", "name": nm, "hid": hids[nm], "mode": "BindingMode(No, Mut)", "t": tindex.get(nm)}, "init": vals[nm], "els": None, "line": line} for nm in order]
            idx = [i_ for i_, t_ in enumerate(b["stmts"]) if t_ is st][0]
            b["stmts"][idx:idx + 1] = lets
            fn["body"] = subst(fn["body"])
            n += 1
    return n


def deref_of_ref(fn):
    """D43  `*&X` / `*&mut X`  ->  `X`   (what a by-reference parameter substituted by its argument leaves behind)"""
    n = 0

    def rw(x):
        nonlocal n
        if isinstance(x, list):
            return [rw(v) for v in x]
        if not isinstance(x, dict):
            return x
        for k_, v in list(x.items()):
            if isinstance(v, (dict, list)):
                x[k_] = rw(v)
        if x.get("k") == "un" and x.get("op") == "Deref":
            i0 = x["x"]
            while isinstance(i0, dict) and i0.get("k") == "blk" and i0.get("lbl") is None and not i0["b"]["stmts"] and i0["b"].get("tail") is not None:
                i0 = i0["b"]["tail"]
            if isinstance(i0, dict) and i0.get("k") == "ref" and isinstance(i0.get("x"), dict):
                n += 1
                return i0["x"]
        if x.get("k") == "mcall" and isinstance(x.get("recv"), dict):
            r1 = x["recv"]
            while isinstance(r1, dict) and r1.get("k") == "blk" and r1.get("lbl") is None and not r1["b"]["stmts"] and r1["b"].get("tail") is not None:
                r1 = r1["b"]["tail"]
            if isinstance(r1, dict) and r1.get("k") == "ref" and isinstance(r1.get("x"), dict) and _pure_access(r1["x"]):
                # `(&v).m()` / `(&mut v).m()`: method-call syntax borrows the receiver anyway (the borrow is kept as the receiver's adjusted type)
                inner_ = r1["x"]
                tys = _TYPES[0] or []
                ti_ = inner_.get("t")
                if "ta" not in inner_ and ti_ is not None and ti_ < len(tys):
                    want_ = ("&mut " if r1.get("mut") else "&") + tys[ti_]
                    if want_ in tys:
                        inner_ = dict(inner_)
                        inner_["ta"] = tys.index(want_)
                    elif r1.get("mut"):
                        inner_ = None          # the mutable borrow cannot be recorded: keep the explicit form
                if inner_ is not None:
                    x["recv"] = inner_
                    n += 1
        if x.get("k") == "ref" and isinstance(x.get("x"), dict):
            # `&*r` / `&mut *r` (a re-borrow of what the reference `r` points to) names the same place as `r`
            i0 = x["x"]
            while isinstance(i0, dict) and i0.get("k") == "blk" and i0.get("lbl") is None and not i0["b"]["stmts"] and i0["b"].get("tail") is not None:
                i0 = i0["b"]["tail"]
            if isinstance(i0, dict) and i0.get("k") == "un" and i0.get("op") == "Deref" and isinstance(i0.get("x"), dict) and i0["x"].get("k") == "local":
                n += 1
                return i0["x"]
        return x
    if fn.get("body") is not None:
        fn["body"] = rw(fn["body"])
    return n


def loop_exit_tests(fn):
    """D42  `loop { if C { break; } rest.. }`  ->  `while !C { rest.. }`;  for a counter `i` that starts at the literal 0 and is incremented by 1 at the end of
    the body, the exit test `i == n` is `i >= n` (0 <= n for an unsigned n, and i reaches every value up to n)."""
    n = 0
    for blkn in list(_walk(fn.get("body"))):
        if blkn.get("k") != "block":
            continue
        items = list(blkn["stmts"]) + ([blkn["tail"]] if blkn.get("tail") is not None else [])
        for b, lp0 in enumerate(items):
            lp = _unblk(lp0)
            if lp is None or lp.get("k") != "loop" or lp.get("src") != "Loop":
                continue
            bd = lp["body"]
            bd = bd["b"] if bd.get("k") == "blk" else bd
            if bd.get("k") != "block" or not bd["stmts"]:
                continue
            first = _unblk(bd["stmts"][0])
            if first is None or first.get("k") != "if" or first.get("el") is not None:
                continue
            c = _unblk(first["c"])
            if c is None or c.get("k") != "bin" or c["op"] not in _NEG:
                continue
            d_ = _div_stmt(first["th"])
            lid = lp.get("loop_id")
            if d_ is None or d_.get("k") != "break" or d_.get("label") not in (lid, None):
                continue
            rest = bd["stmts"][1:] + ([bd["tail"]] if bd.get("tail") is not None else [])
            if any(y.get("k") == "break" and y.get("label") == lid and y.get("v") is not None for x in rest for y in _walk(x)):
                continue
            op = _NEG[c["op"]]
            if c["op"] == "Eq":
                l_, last = _unblk(c["l"]), (_unblk(rest[-1]) if rest else None)
                prev = items[b - 1] if b > 0 else None
                counted = (l_ is not None and l_.get("k") == "local" and last is not None and last.get("k") == "assignop" and str(last.get("op", "")).startswith("Add")
                           and _unblk(last["l"]).get("k") == "local" and _unblk(last["l"])["hid"] == l_["hid"] and _unblk(last["r"]).get("k") == "lit"
                           and str(_unblk(last["r"]).get("v")).replace("usize", "").rstrip("_") == "1"
                           and prev is not None and prev.get("k") == "let" and prev["pat"].get("k") == "bind" and prev["pat"]["hid"] == l_["hid"]
                           and _unblk(prev.get("init")) is not None and _unblk(prev["init"]).get("k") == "lit" and str(_unblk(prev["init"]).get("v")).replace("usize", "").rstrip("_") == "0"
                           and not any(y.get("k") in ("assign", "assignop") and _unblk(y["l"]).get("k") == "local" and _unblk(y["l"])["hid"] == l_["hid"] for x in rest[:-1] for y in _walk(x))
                           and not any(y.get("k") == "continue" and y.get("label") in (lid, None) for x in rest for y in _walk(x)))
                if not counted:
                    continue
                op = "Lt"
            line = lp.get("line")
            cond = {**c, "op": op}
            body_blk = {"k": "blk", "b": {"k": "block", "stmts": rest, "tail": None}, "line": line}
            brk = {"k": "blk", "b": {"k": "block", "stmts": [{"k": "break", "label": lid, "v": None, "line": line}], "tail": None}, "line": line}
            lp["src"] = "While"
            lp["body"] = {"k": "blk", "b": {"k": "block", "stmts": [], "tail": {"k": "if", "c": cond, "th": body_blk, "el": brk, "line": line}}, "line": line}
            n += 1
    return n


def while_to_for(fn, types):
    """D8  `let mut i = A; while i < B { body; i += 1; }`  ->  `for i in A..B { body }`
    when the body neither assigns i elsewhere nor `continue`s the loop, B is side-effect free and not changed by the body
    (element writes do not change a `.len()`), and i is not used after the loop.  Same iterations, same order, same panics."""
    n = 0
    usize_t = types.index("usize") if "usize" in types else None
    for blkn in list(_walk(fn.get("body"))):
        if blkn.get("k") != "block":
            continue
        changed = True
        while changed:
            changed = False
            stmts = blkn["stmts"]
            items = list(stmts) + ([blkn["tail"]] if blkn.get("tail") is not None else [])
            for b, lp0 in enumerate(items):
                lp = _unblk(lp0)
                if lp is None or lp.get("k") != "loop" or lp.get("src") != "While":
                    continue
                bd = lp["body"]
                bd = bd["b"] if bd.get("k") == "blk" else bd
                if bd.get("k") != "block" or bd["stmts"] or bd.get("tail") is None or bd["tail"].get("k") != "if":
                    continue
                iff = bd["tail"]
                c = _unblk(iff["c"])
                if c is None or c.get("k") != "bin":
                    continue
                if c["op"] == "Lt":
                    iv, end = _unblk(c["l"]), c["r"]
                elif c["op"] == "Gt":
                    iv, end = _unblk(c["r"]), c["l"]
                else:
                    continue
                if (iv is not None and iv.get("k") == "mcall" and iv.get("name") == "len" and not iv["args"] and _unblk(iv["recv"]) is not None
                        and _unblk(iv["recv"]).get("k") == "local"):
                    # fill-up:  `let mut v = Vec::new(); while v.len() < N { body; v.push(e); }`  ->  `for _ in 0..N { body; v.push(e); }`
                    if _fillup(blkn, stmts, items, b, lp, iff, _unblk(iv["recv"]), end, types):
                        n += 1
                        changed = True
                        break
                    continue
                zero = _unblk(c["r"]) if c["op"] == "Gt" else _unblk(c["l"])
                down = _unblk(c["l"]) if c["op"] == "Gt" else _unblk(c["r"])
                if (zero is not None and zero.get("k") == "lit" and str(zero.get("v")).replace("usize", "").rstrip("_") == "0"
                        and down is not None and down.get("k") == "local"):
                    # count-down:  `let mut i = N; while i > 0 { i -= 1; body }`  ->  `for i in (0..N).rev() { body }`
                    if _countdown(blkn, stmts, items, b, lp, iff, down, types):
                        n += 1
                        changed = True
                        break
                    continue
                if iv is None or iv.get("k") != "local":
                    continue
                ih = iv["hid"]
                th = iff["th"]
                thb = th["b"] if th.get("k") == "blk" else None
                if thb is None or thb.get("tail") is not None and False:
                    continue
                body_items = list(thb["stmts"]) + ([thb["tail"]] if thb.get("tail") is not None else [])
                if not body_items:
                    continue
                last = _unblk(body_items[-1])
                inc = False
                if last is not None and last.get("k") == "assignop" and last["op"].startswith("Add"):
                    l_, r_ = _unblk(last["l"]), _unblk(last["r"])
                    inc = l_.get("k") == "local" and l_["hid"] == ih and r_.get("k") == "lit" and str(r_.get("v")).split("_")[0].replace("usize", "") == "1"
                elif last is not None and last.get("k") == "assign":
                    l_, r_ = _unblk(last["l"]), _unblk(last["r"])
                    if l_.get("k") == "local" and l_["hid"] == ih and r_.get("k") == "bin" and r_["op"] == "Add":
                        a_, b_ = _unblk(r_["l"]), _unblk(r_["r"])
                        for u, v in ((a_, b_), (b_, a_)):
                            if u.get("k") == "local" and u["hid"] == ih and v.get("k") == "lit" and str(v.get("v")).replace("usize", "").rstrip("_") == "1":
                                inc = True
                if not inc:
                    continue
                rest = body_items[:-1]
                if ih in _mutations(rest, types):
                    continue
                lid = lp.get("loop_id")
                if any(x.get("k") == "continue" and x.get("label") in (lid, None) for x in _walk(rest)):
                    continue
                if not _pure_bound(end):
                    continue
                muts = _mutations(rest, types)
                bad = False
                for x in _walk(end):
                    if x.get("k") == "local" and x["hid"] in muts:
                        if muts[x["hid"]] - {"elem"} or not _len_only(end, x["hid"]):
                            bad = True
                if bad or _mentions(end, ih):
                    continue
                # the counter's declaration: an earlier statement of this block, not mentioned in between or after the loop
                a = None
                for j in range(b - 1, -1, -1):
                    s = items[j]
                    if s.get("k") == "let" and s["pat"].get("k") == "bind" and s["pat"]["hid"] == ih and s.get("init") is not None and not s.get("els"):
                        a = j
                        break
                    if _mentions(s, ih):
                        break
                if a is None:
                    continue
                start = _unblk(items[a]["init"])
                if not (start.get("k") == "lit" or (a == b - 1 and _pure_place(start))):
                    continue
                if any(_mentions(s, ih) for s in items[b + 1:]):
                    continue
                pat = dict(items[a]["pat"])
                pat["mode"] = "BindingMode(No, Not)"
                body = {"k": "blk", "b": {"k": "block", "stmts": rest, "tail": None}, "line": th.get("line")}
                newlp = {"k": "for", "pat": pat, "loop_id": lid, "line": lp.get("line"), "from_while": True, "body": body,
                         "iter": {"k": "struct", "path": "std::ops::Range", "mac": "Desugaring(RangeExpr)", "line": lp.get("line"),
                                  "fs": [["start", start], ["end", end]]}}
                if "id" in lp:
                    newlp["id"] = lp["id"]
                if b < len(stmts):
                    stmts[b] = newlp
                else:
                    blkn["tail"] = None
                    stmts.append(newlp)
                del stmts[a]
                n += 1
                changed = True
                break
    return n


_UW = [0]
class _ThreadLocalSlot:
    """a one-element list per thread (the pre-passes run concurrently on different programs in the self-test drivers)"""
    def __init__(self):
        import threading
        self._tl = threading.local()

    def __getitem__(self, i):
        return getattr(self._tl, "v", None)

    def __setitem__(self, i, v):
        self._tl.v = v


_TYPES = _ThreadLocalSlot()


def option_combinators(fn):
    """D9  `opt.map(|p| e)`        ->  `match opt { Some(p) => Some(e), None => None }`
           `opt.and_then(|p| e)`   ->  `match opt { Some(p) => e, None => None }`
           `opt.map_or(d, |p| e)`  ->  `match opt { Some(p) => e, None => d }`      (d a literal / path / local: evaluation order irrelevant)
    (the definitions of the combinators; a closure containing `return` is left alone)."""
    n = 0

    def rewrite(x):
        nonlocal n
        if isinstance(x, list):
            return [rewrite(v) for v in x]
        if not isinstance(x, dict):
            return x
        for k_, v in list(x.items()):
            if isinstance(v, (dict, list)):
                x[k_] = rewrite(v)
        OPT = ("std::option::Option::<T>::", "core::option::Option::<T>::")
        # `if let P = opt.as_mut()` / `match opt.as_ref() {..}`  ->  matching on `&mut opt` / `&opt` (default binding modes: same bindings)
        if x.get("k") in ("letx", "match"):
            key = "init" if x["k"] == "letx" else "scrut"
            i0 = _unblk(x.get(key))
            if (i0 is not None and i0.get("k") == "mcall" and str(i0.get("callee", "")).startswith(OPT) and i0["name"] in ("as_mut", "as_ref")
                    and not i0["args"] and _pure_place(i0["recv"])):
                x[key] = {"k": "ref", "mut": i0["name"] == "as_mut", "x": i0["recv"], "line": i0.get("line"), "from_option_combinator": i0["name"]}
                n += 1
            return x
        # `c.then(|| e)` / `c.then_some(v)`  ->  `if c { Some(e) } else { None }`
        if x.get("k") == "mcall" and str(x.get("callee", "")).endswith(("bool>::then", "bool>::then_some")) and len(x["args"]) == 1:
            a0 = _unblk(x["args"][0])
            val = None
            if x["name"] == "then" and a0 is not None and a0.get("k") == "closure" and not a0.get("params") and not any(y.get("k") == "ret" for y in _walk(a0["body"])):
                val = a0["body"]
            elif x["name"] == "then_some" and a0 is not None and a0.get("k") in ("lit", "path", "local"):
                val = x["args"][0]
            if val is not None:
                line = x.get("line")
                some_v = {"k": "call", "callee": "std::prelude::v1::Some", "f": {"k": "path", "def": "std::prelude::v1::Some", "line": line}, "args": [val], "line": line}
                none_v = {"k": "path", "def": "std::prelude::v1::None", "line": line}
                if "t" in x:
                    some_v["t"] = x["t"]
                    none_v["t"] = x["t"]
                m = {"k": "if", "c": x["recv"], "th": {"k": "blk", "b": {"k": "block", "stmts": [], "tail": some_v}, "line": line},
                     "el": {"k": "blk", "b": {"k": "block", "stmts": [], "tail": none_v}, "line": line}, "line": line, "from_option_combinator": x["name"]}
                for key in ("t", "ta", "id"):
                    if key in x:
                        m[key] = x[key]
                n += 1
                return m
            return x
        # `opt.iter().for_each(|p| body)` / `opt.iter_mut().for_each(..)`  ->  `if let Some(p) = &opt { body }` / `&mut opt`
        if x.get("k") == "mcall" and x.get("name") == "for_each" and len(x["args"]) == 1:
            r0 = _unblk(x["recv"])
            cl0 = _unblk(x["args"][0])
            if (r0 is not None and r0.get("k") == "mcall" and r0.get("name") in ("iter", "iter_mut") and not r0["args"] and str(r0.get("callee", "")).startswith(OPT)
                    and _pure_access(r0["recv"]) and cl0 is not None and cl0.get("k") == "closure" and len(cl0.get("params") or []) == 1
                    and not any(y.get("k") == "ret" for y in _walk(cl0["body"]))):
                line = x.get("line")
                body = cl0["body"] if cl0["body"].get("k") == "blk" else {"k": "blk", "b": {"k": "block", "stmts": [cl0["body"]], "tail": None}, "line": line}
                n += 1
                return {"k": "if", "c": {"k": "letx", "pat": {"k": "tstruct", "path": "std::prelude::v1::Some", "ps": [cl0["params"][0]]},
                                         "init": {"k": "ref", "mut": r0["name"] == "iter_mut", "x": r0["recv"], "line": line}, "line": line},
                        "th": body, "el": None, "line": line, "from_option_combinator": "for_each"}
        # `v.extend_from_slice(&w)`  ->  `v.extend(w.clone())`   (w a whole local vector; definition of extend_from_slice for T: Clone)
        if x.get("k") == "mcall" and x.get("name") == "extend_from_slice" and len(x["args"]) == 1 and str(x.get("callee", "")).startswith("std::vec::Vec::<T, A>::"):
            a0 = _unblk(x["args"][0])
            if a0 is not None and a0.get("k") == "ref" and not a0.get("mut") and _unblk(a0["x"]) is not None and _unblk(a0["x"]).get("k") == "local":
                w = _unblk(a0["x"])
                tyi = w.get("t")
                if tyi is not None and _TYPES[0] and tyi < len(_TYPES[0]) and _TYPES[0][tyi].startswith("std::vec::Vec<"):
                    line = x.get("line")
                    cl = {"k": "mcall", "name": "clone", "callee": "std::clone::Clone::clone", "recv": w, "args": [], "line": line, "t": tyi}
                    n += 1
                    return {**x, "name": "extend", "callee": "std::iter::Extend::extend", "args": [cl], "from_option_combinator": "extend_from_slice"}
            return x
        # `v.extend(opt.iter().cloned())` / `v.extend(opt.clone())`  ->  `if let Some(e) = &opt { v.push(e.clone()) }`
        if x.get("k") == "mcall" and x.get("name") == "extend" and str(x.get("callee", "")).startswith("std::vec::Vec::<T, A>::") is False and False:
            pass
        if x.get("k") == "mcall" and x.get("name") == "extend" and len(x["args"]) == 1 and str(x.get("callee", "")).endswith("::extend"):
            a0 = _unblk(x["args"][0])
            src = None
            if a0 is not None and a0.get("k") == "mcall" and a0["name"] in ("cloned", "copied") and not a0["args"]:
                i0 = _unblk(a0["recv"])
                if i0 is not None and i0.get("k") == "mcall" and i0["name"] == "iter" and str(i0.get("callee", "")).startswith(OPT) and _pure_place(i0["recv"]):
                    src = i0["recv"]
            elif a0 is not None and _pure_place(a0) and a0.get("k") in ("local", "field"):
                # `v.extend(opt)` - an Option handed over by value yields its payload, if any
                tyi = a0.get("t")
                if tyi is not None and _TYPES[0] and tyi < len(_TYPES[0]) and _TYPES[0][tyi].startswith("std::option::Option<") and _pure_place(x["recv"]):
                    _UW[0] += 1
                    vh = 9700000 + _UW[0]
                    line = x.get("line")
                    nm = "_ex%d" % _UW[0]
                    vb = {"k": "bind", "name": nm, "hid": vh, "mode": "BindingMode(No, Not)", "t": None}
                    push = {"k": "mcall", "name": "push", "callee": "std::vec::Vec::<T, A>::push", "recv": x["recv"], "args": [{"k": "local", "name": nm, "hid": vh, "line": line}], "line": line}
                    n += 1
                    return {"k": "if", "c": {"k": "letx", "pat": {"k": "tstruct", "path": "std::prelude::v1::Some", "ps": [vb]}, "init": x["args"][0], "line": line},
                            "th": {"k": "blk", "b": {"k": "block", "stmts": [push], "tail": None}, "line": line}, "el": None, "line": line, "from_option_combinator": "extend"}
            elif a0 is not None and a0.get("k") == "mcall" and a0["name"] == "clone" and not a0["args"] and _pure_place(a0["recv"]):
                r0 = _unblk(a0["recv"])
                while r0 is not None and r0.get("k") == "ref":
                    r0 = _unblk(r0["x"])
                tyi = r0.get("t") if r0 is not None else None
                if tyi is not None and _TYPES[0] and tyi < len(_TYPES[0]) and _TYPES[0][tyi].lstrip("&").startswith("std::option::Option<"):
                    src = a0["recv"]
            if src is not None and _pure_place(x["recv"]):
                _UW[0] += 1
                vh = 9700000 + _UW[0]
                line = x.get("line")
                nm = "_ex%d" % _UW[0]
                vb = {"k": "bind", "name": nm, "hid": vh, "mode": "BindingMode(No, Not)", "t": None}
                elem = {"k": "mcall", "name": "clone", "callee": "std::clone::Clone::clone", "recv": {"k": "local", "name": nm, "hid": vh, "line": line}, "args": [], "line": line}
                push = {"k": "mcall", "name": "push", "callee": "std::vec::Vec::<T, A>::push", "recv": x["recv"], "args": [elem], "line": line}
                n += 1
                return {"k": "if", "c": {"k": "letx", "pat": {"k": "tstruct", "path": "std::prelude::v1::Some", "ps": [vb]},
                                         "init": {"k": "ref", "mut": False, "x": src, "line": line}, "line": line},
                        "th": {"k": "blk", "b": {"k": "block", "stmts": [push], "tail": None}, "line": line}, "el": None, "line": line, "from_option_combinator": "extend"}
            return x
        if x.get("k") != "mcall" or not str(x.get("callee", "")).startswith(OPT):
            return x
        name = x["name"]
        args = x["args"]
        if name in ("map", "and_then") and len(args) == 1:
            cl, dflt = _unblk(args[0]), None
        elif name == "map_or" and len(args) == 2:
            cl, dflt = _unblk(args[1]), _unblk(args[0])
            if dflt is None or dflt.get("k") not in ("lit", "path", "local"):
                return x
        elif name == "unwrap_or" and len(args) == 1:
            d_ = _unblk(args[0])
            d0 = d_
            while d0 is not None and d0.get("k") == "ref":
                d0 = _unblk(d0["x"])
            if d0 is None or d0.get("k") not in ("lit", "path", "local"):
                return x
            _UW[0] += 1
            vh = 9700000 + _UW[0]
            line = x.get("line")
            bind = {"k": "bind", "name": "_uw%d" % _UW[0], "hid": vh, "mode": "BindingMode(No, Not)", "t": x.get("t")}
            m = {"k": "match", "scrut": x["recv"], "src": "Normal", "line": line, "from_option_combinator": name,
                 "arms": [{"pat": {"k": "tstruct", "path": "std::prelude::v1::Some", "ps": [bind]}, "guard": None,
                           "body": {"k": "local", "name": "_uw%d" % _UW[0], "hid": vh, "t": x.get("t"), "line": line}},
                          {"pat": {"k": "ppath", "path": "std::prelude::v1::None"}, "guard": None, "body": args[0]}]}
            for key in ("t", "ta", "id"):
                if key in x:
                    m[key] = x[key]
            n += 1
            return m
        elif name == "zip" and len(args) == 1:      # (receiver, then argument: the tuple evaluates them in the same order)
            # `a.zip(b)`  ->  `match (a, b) { (Some(x), Some(y)) => Some((x, y)), _ => None }`
            _UW[0] += 2
            h1, h2 = 9700000 + _UW[0] - 1, 9700000 + _UW[0]
            line = x.get("line")
            b1 = {"k": "bind", "name": "_z%d" % h1, "hid": h1, "mode": "BindingMode(No, Not)", "t": None}
            b2 = {"k": "bind", "name": "_z%d" % h2, "hid": h2, "mode": "BindingMode(No, Not)", "t": None}
            some = lambda q: {"k": "tstruct", "path": "std::prelude::v1::Some", "ps": [q]}
            pair = {"k": "tup", "xs": [{"k": "local", "name": b1["name"], "hid": h1, "line": line}, {"k": "local", "name": b2["name"], "hid": h2, "line": line}], "line": line}
            val = {"k": "call", "callee": "std::prelude::v1::Some", "f": {"k": "path", "def": "std::prelude::v1::Some", "line": line}, "args": [pair], "line": line}
            m = {"k": "match", "scrut": {"k": "tup", "xs": [x["recv"], args[0]], "line": line}, "src": "Normal", "line": line, "from_option_combinator": name,
                 "arms": [{"pat": {"k": "tuple", "ps": [some(b1), some(b2)]}, "guard": None, "body": val},
                          {"pat": {"k": "wild"}, "guard": None, "body": {"k": "path", "def": "std::prelude::v1::None", "line": line}}]}
            for key in ("t", "ta", "id"):
                if key in x:
                    m[key] = x[key]
                    if key != "id":
                        val[key] = x[key]
            n += 1
            return m
        elif name == "unwrap_or_else" and len(args) == 1:
            cl0 = _unblk(args[0])
            if cl0 is None or cl0.get("k") != "closure" or cl0.get("params") or any(y.get("k") == "ret" for y in _walk(cl0["body"])):
                return x
            _UW[0] += 1
            vh = 9700000 + _UW[0]
            line = x.get("line")
            bind = {"k": "bind", "name": "_uw%d" % _UW[0], "hid": vh, "mode": "BindingMode(No, Not)", "t": x.get("t")}
            m = {"k": "match", "scrut": x["recv"], "src": "Normal", "line": line, "from_option_combinator": name,
                 "arms": [{"pat": {"k": "tstruct", "path": "std::prelude::v1::Some", "ps": [bind]}, "guard": None,
                           "body": {"k": "local", "name": "_uw%d" % _UW[0], "hid": vh, "t": x.get("t"), "line": line}},
                          {"pat": {"k": "ppath", "path": "std::prelude::v1::None"}, "guard": None, "body": cl0["body"]}]}
            for key in ("t", "ta", "id"):
                if key in x:
                    m[key] = x[key]
            n += 1
            return m
        elif name == "filter" and len(args) == 1:
            cl = _unblk(args[0])
            if cl is None or cl.get("k") != "closure" or len(cl.get("params") or []) != 1 or any(y.get("k") == "ret" for y in _walk(cl["body"])):
                return x
            prm = cl["params"][0]
            q = prm
            while q is not None and q.get("k") in ("ref", "deref"):
                q = q["p"]
            if q is None or q.get("k") not in ("bind", "wild"):
                return x
            _UW[0] += 1
            vh = 9700000 + _UW[0]
            line = x.get("line")
            vb = {"k": "bind", "name": "_fl%d" % _UW[0], "hid": vh, "mode": "BindingMode(No, Not)", "t": None}
            vloc = lambda: {"k": "local", "name": "_fl%d" % _UW[0], "hid": vh, "line": line}
            cond = cl["body"]
            if q.get("k") == "bind":
                # the predicate sees the payload through its own name
                cond = {"k": "blk", "b": {"k": "block", "stmts": [{"k": "let", "pat": q, "init": {"k": "ref", "mut": False, "x": vloc(), "line": line}, "els": None, "line": line}],
                                          "tail": cl["body"]}, "line": line}
            some_v = {"k": "call", "callee": "std::prelude::v1::Some", "f": {"k": "path", "def": "std::prelude::v1::Some", "line": line}, "args": [vloc()], "line": line}
            none_v = lambda: {"k": "path", "def": "std::prelude::v1::None", "line": line}
            for nd in (some_v,):
                if "t" in x:
                    nd["t"] = x["t"]
            m = {"k": "match", "scrut": x["recv"], "src": "Normal", "line": line, "from_option_combinator": name,
                 "arms": [{"pat": {"k": "tstruct", "path": "std::prelude::v1::Some", "ps": [vb]}, "guard": None,
                           "body": {"k": "if", "c": cond, "th": {"k": "blk", "b": {"k": "block", "stmts": [], "tail": some_v}, "line": line},
                                    "el": {"k": "blk", "b": {"k": "block", "stmts": [], "tail": none_v()}, "line": line}, "line": line}},
                          {"pat": {"k": "ppath", "path": "std::prelude::v1::None"}, "guard": None, "body": none_v()}]}
            for key in ("t", "ta", "id"):
                if key in x:
                    m[key] = x[key]
            n += 1
            return m
        else:
            return x
        if cl is None or cl.get("k") != "closure" or len(cl.get("params") or []) != 1 or any(y.get("k") == "ret" for y in _walk(cl["body"])):
            return x
        line = x.get("line")
        body = cl["body"]
        if name == "map":
            body = {"k": "call", "callee": "std::prelude::v1::Some", "f": {"k": "path", "def": "std::prelude::v1::Some", "line": line}, "args": [body], "line": line}
            if "t" in x:
                body["t"] = x["t"]
        none = dflt if dflt is not None else {"k": "path", "def": "std::prelude::v1::None", "line": line}
        if dflt is None and "t" in x:
            none["t"] = x["t"]
        m = {"k": "match", "scrut": x["recv"], "src": "Normal", "line": line, "from_option_combinator": name,
             "arms": [{"pat": {"k": "tstruct", "path": "std::prelude::v1::Some", "ps": [cl["params"][0]]}, "guard": None, "body": body},
                      {"pat": {"k": "ppath", "path": "std::prelude::v1::None"}, "guard": None, "body": none}]}
        for key in ("t", "ta", "id"):
            if key in x:
                m[key] = x[key]
        n += 1
        return m
    if fn.get("body") is not None:
        fn["body"] = rewrite(fn["body"])
    return n


def flatten_blocks(fn):
    """D10  a block used as a statement, or as the initialiser of a `let`, is spliced into the enclosing block:
        `{ s1; s2; t }`  as a statement       ->  `s1; s2; t;`
        `let P = { s1; s2; t };`               ->  `s1; s2; let P = t;`
    Locals are identified by the compiler's ids, not by name, so widening a scope cannot capture anything; only drop order
    changes, which no property observes.  Labelled blocks (an inlined helper with an early `return`) are kept."""
    n = 0
    for b in list(_walk(fn.get("body"))):
        if b.get("k") != "block":
            continue
        changed = True
        while changed:
            changed = False
            out = []
            for s in b["stmts"]:
                if s.get("k") == "blk" and s.get("lbl") is None and isinstance(s.get("b"), dict) and s["b"].get("k") == "block" and not s.get("unsafe") and (s["b"]["stmts"] or s["b"].get("tail") is not None):
                    out.extend(s["b"]["stmts"])
                    if s["b"].get("tail") is not None:
                        out.append(s["b"]["tail"])
                    changed = True
                    n += 1
                elif (s.get("k") == "let" and not s.get("els") and isinstance(s.get("init"), dict) and s["init"].get("k") == "blk" and s["init"].get("lbl") is None
                      and not s["init"].get("unsafe") and s["init"]["b"].get("k") == "block" and s["init"]["b"]["stmts"] and s["init"]["b"].get("tail") is not None):
                    out.extend(s["init"]["b"]["stmts"])
                    s["init"] = s["init"]["b"]["tail"]
                    out.append(s)
                    changed = True
                    n += 1
                elif (s.get("k") in ("assign", "assignop") and isinstance(s.get("r"), dict) and s["r"].get("k") == "blk" and s["r"].get("lbl") is None and not s["r"].get("unsafe")
                      and s["r"]["b"].get("k") == "block" and s["r"]["b"]["stmts"] and s["r"]["b"].get("tail") is not None and _pure_access(s["l"])
                      and not ({y["hid"] for y in _walk(s["l"]) if y.get("k") == "local"} & set(_assigned_locals(s["r"]["b"]["stmts"])))):
                    # `PLACE = { s1; s2; t };`  ->  `s1; s2; PLACE = t;`   (the statements do not change what PLACE names; for `op=` the old value is read after them either way
                    #  only when they do not write PLACE's root - checked through the same set)
                    out.extend(s["r"]["b"]["stmts"])
                    s["r"] = s["r"]["b"]["tail"]
                    out.append(s)
                    changed = True
                    n += 1
                elif (s.get("k") == "if" and isinstance(s.get("c"), dict) and s["c"].get("k") == "letx" and isinstance(s["c"].get("init"), dict) and s["c"]["init"].get("k") == "blk"
                      and s["c"]["init"].get("lbl") is None and s["c"]["init"]["b"].get("k") == "block" and s["c"]["init"]["b"]["stmts"] and s["c"]["init"]["b"].get("tail") is not None
                      and all(t_.get("k") == "let" and not t_.get("els") for t_ in s["c"]["init"]["b"]["stmts"])):
                    # `if let P = { let a = ..; e } { T }`  ->  `let a = ..; if let P = e { T }`
                    out.extend(s["c"]["init"]["b"]["stmts"])
                    s["c"]["init"] = s["c"]["init"]["b"]["tail"]
                    out.append(s)
                    changed = True
                    n += 1
                else:
                    out.append(s)
            b["stmts"] = out
            t = b.get("tail")
            if (isinstance(t, dict) and t.get("k") == "if" and isinstance(t.get("c"), dict) and t["c"].get("k") == "letx" and isinstance(t["c"].get("init"), dict) and t["c"]["init"].get("k") == "blk"
                    and t["c"]["init"].get("lbl") is None and t["c"]["init"]["b"].get("k") == "block" and t["c"]["init"]["b"]["stmts"] and t["c"]["init"]["b"].get("tail") is not None
                    and all(t_.get("k") == "let" and not t_.get("els") for t_ in t["c"]["init"]["b"]["stmts"])):
                b["stmts"] = b["stmts"] + list(t["c"]["init"]["b"]["stmts"])
                t["c"]["init"] = t["c"]["init"]["b"]["tail"]
                changed = True
                n += 1
            if (isinstance(t, dict) and t.get("k") == "blk" and t.get("lbl") is None and not t.get("unsafe") and t["b"].get("k") == "block" and t["b"]["stmts"]):
                b["stmts"] = b["stmts"] + list(t["b"]["stmts"])
                b["tail"] = t["b"].get("tail")
                changed = True
                n += 1
    return n


def _assigned_locals(stmts):
    """hids of locals assigned (as a whole or through a place rooted at them) or mutably borrowed in stmts"""
    out = set()
    for x in stmts:
        for y in _walk(x):
            tgt = None
            if y.get("k") in ("assign", "assignop"):
                tgt = y["l"]
            elif y.get("k") == "ref" and y.get("mut"):
                tgt = y["x"]
            if tgt is not None:
                r = _root_of_place(tgt)
                if r is not None and r.get("k") == "local":
                    out.add(r["hid"])
    return out


def move_aliases(fn):
    """D11  `let a = b;` where b is a local that is never mentioned again (a move / rename) -> a is b.
    Only within one statement list; the binding of b must be a plain `let` / parameter (hid-identified)."""
    n = 0
    params = set()
    for p_ in fn.get("params") or []:
        for q in _walk(p_):
            if q.get("k") == "bind":
                params.add(q["hid"])
    top = fn.get("body")
    while isinstance(top, dict) and top.get("k") == "blk":
        top = top["b"]
    bind_mode = {}
    for x in list(_walk(fn.get("params") or [])) + list(_walk(fn.get("body"))):
        if x.get("k") == "bind" and isinstance(x.get("hid"), int):
            bind_mode[x["hid"]] = x.get("mode") if x["hid"] not in bind_mode or bind_mode[x["hid"]] == x.get("mode") else "conflict"
    # the body block of a closure plays the same role for the closure's parameters
    cl_params = {}
    for x in _walk(fn.get("body")):
        if x.get("k") == "closure":
            cb = x.get("body")
            while isinstance(cb, dict) and cb.get("k") == "blk" and cb.get("lbl") is None:
                cb = cb["b"]
            if isinstance(cb, dict) and cb.get("k") == "block":
                cl_params[id(cb)] = {q["hid"] for p_ in x.get("params") or [] for q in _walk(p_) if q.get("k") == "bind"}
    for b in list(_walk(fn.get("body"))):
        if b.get("k") != "block":
            continue
        i = 0
        while i < len(b["stmts"]):
            s = b["stmts"][i]
            init = _unblk(s.get("init")) if s.get("k") == "let" else None
            if (s.get("k") == "let" and not s.get("els") and s["pat"].get("k") == "bind" and not s["pat"].get("sub") and init is not None and init.get("k") == "ref"
                    and not init.get("mut") and _unblk(init["x"]) is not None and _unblk(init["x"]).get("k") == "local" and str(s["pat"].get("mode")).endswith("No, Not)")
                    and _unblk(init["x"])["hid"] != s["pat"]["hid"]):
                # `let a = &b;`: while the shared borrow lives nothing can change b, so every use of a is a use of b
                src_n = _unblk(init["x"])
                dst = s["pat"]["hid"]
                later = b["stmts"][i + 1:] + ([b["tail"]] if b.get("tail") is not None else [])
                for x in later:
                    for y in _walk(x):
                        if y.get("k") == "local" and y.get("hid") == dst:
                            y["hid"] = src_n["hid"]
                            y["name"] = src_n["name"]
                del b["stmts"][i]
                n += 1
                continue
            if (s.get("k") == "let" and not s.get("els") and s["pat"].get("k") == "bind" and not s["pat"].get("sub") and init is not None and init.get("k") == "local"
                    and "Ref" not in str(s["pat"].get("mode")) and s.get("from_alias") is None):
                src = init["hid"]
                later = b["stmts"][i + 1:] + ([b["tail"]] if b.get("tail") is not None else [])
                imm = (src in bind_mode and str(bind_mode[src]).endswith("Not)") and str(s["pat"].get("mode")).endswith("No, Not)")
                       and str(bind_mode[src]).startswith("BindingMode(No"))
                if imm and src != s["pat"]["hid"]:
                    # both names are immutable bindings: the new one is the old value under another name, whatever happens later
                    dst = s["pat"]["hid"]
                    for x in later:
                        for y in _walk(x):
                            if y.get("k") == "local" and y.get("hid") == dst:
                                y["hid"] = src
                                y["name"] = init["name"]
                    del b["stmts"][i]
                    n += 1
                    continue
                if not any(_mentions(x, src) for x in later) and src != s["pat"]["hid"] and (_declared_in(b["stmts"][:i], src) or (b is top and src in params) or src in cl_params.get(id(b), ())):
                    dst = s["pat"]["hid"]
                    for x in later:
                        for y in _walk(x):
                            if y.get("k") == "local" and y.get("hid") == dst:
                                y["hid"] = src
                                y["name"] = init["name"]
                    del b["stmts"][i]
                    n += 1
                    continue
            i += 1
    return n


def _declared_in(stmts, hid):
    """hid is bound by a plain `let` among stmts (same statement list: same lifetime, nothing captured in between matters)"""
    for s in stmts:
        if s.get("k") == "let":
            for q in _walk(s["pat"]):
                if q.get("k") == "bind" and q.get("hid") == hid:
                    return True
    return False


def inline_consts(facts):
    """D0  a path naming a constant item of the crate is replaced by the item's defining expression (constants are compile-time
    expressions without side effects; `const A: u64 = 48271; .. A ..` and `.. 48271 ..` are the same program)."""
    consts = facts.get("consts") or {}
    if not consts:
        return 0
    n = 0

    def clean(x):
        if isinstance(x, dict):
            return {k: clean(v) for k, v in x.items() if k != "id"}
        if isinstance(x, list):
            return [clean(v) for v in x]
        return x

    def rewrite(x, depth=0):
        nonlocal n
        if isinstance(x, list):
            return [rewrite(v, depth) for v in x]
        if not isinstance(x, dict):
            return x
        if x.get("k") == "path" and x.get("def") in consts and depth < 8:
            n += 1
            body = clean(copy.deepcopy(consts[x["def"]]["body"]))
            body = rewrite(body, depth + 1)
            if isinstance(body, dict) and "line" in x:
                body["line"] = x["line"]
            return body
        for k_, v in list(x.items()):
            if isinstance(v, (dict, list)):
                x[k_] = rewrite(v, depth)
        return x
    for fn in facts["fns"].values():
        if fn.get("body") is not None:
            fn["body"] = rewrite(fn["body"])
    return n


def tail_returns(fn):
    """D13  `return e` in tail position of the function body (also at the end of the branches of a tail `if` / `match`) is the value `e`."""
    n = 0

    def tailpos(x):
        """rewrite node x that sits in tail position; returns the replacement"""
        nonlocal n
        if not isinstance(x, dict):
            return x
        k = x.get("k")
        if k == "ret" and x.get("v") is not None:
            n += 1
            return tailpos(x["v"])
        if k == "blk" and x.get("lbl") is None and isinstance(x.get("b"), dict):
            b = x["b"]
            # `if c { return V; }  rest..`  at the end of the function  ->  `if c { V } else { rest.. }`   (an early-return guard is the first branch)
            for i_, s_ in enumerate(b["stmts"]):
                if (isinstance(s_, dict) and s_.get("k") == "if" and s_.get("el") is None and isinstance(s_.get("th"), dict) and s_["th"].get("k") == "blk"
                        and s_["th"].get("lbl") is None):
                    tb = s_["th"]["b"]
                    items_ = list(tb["stmts"]) + ([tb["tail"]] if tb.get("tail") is not None else [])
                    if items_ and isinstance(items_[-1], dict) and items_[-1].get("k") == "ret" and items_[-1].get("v") is not None \
                            and not any(y.get("k") == "ret" for z in items_[:-1] for y in _walk(z)):
                        rest_ = b["stmts"][i_ + 1:]
                        tail_ = b.get("tail")
                        if tail_ is None and not rest_:
                            continue
                        tb["stmts"] = items_[:-1]
                        tb["tail"] = items_[-1]["v"]
                        s_["el"] = {"k": "blk", "b": {"k": "block", "stmts": rest_, "tail": tail_}, "line": s_.get("line")}
                        b["stmts"] = b["stmts"][:i_]
                        b["tail"] = s_
                        n += 1
                        break
            if b.get("tail") is not None:
                b["tail"] = tailpos(b["tail"])
            elif b["stmts"] and isinstance(b["stmts"][-1], dict) and b["stmts"][-1].get("k") == "ret" and b["stmts"][-1].get("v") is not None:
                b["tail"] = tailpos(b["stmts"].pop())
            return x
        if k == "if" and x.get("el") is not None:
            x["th"] = tailpos(x["th"])
            x["el"] = tailpos(x["el"])
            return x
        if k == "match":
            for a in x["arms"]:
                a["body"] = tailpos(a["body"])
            return x
        return x
    if fn.get("body") is not None:
        fn["body"] = tailpos(fn["body"])
    return n


def unwrap_trivial_arg_blocks(fn):
    """`f({ e })` -> `f(e)`: a statement-less block used as an operand of a call is its value"""
    n = 0
    for x in _walk(fn.get("body")):
        if x.get("k") in ("call", "mcall"):
            for i, a in enumerate(x["args"]):
                u = _unblk(a)
                if u is not a and u is not None and not (isinstance(a, dict) and a.get("unsafe")):
                    x["args"][i] = u
                    n += 1
            if x["k"] == "mcall":
                u = _unblk(x["recv"])
                if u is not x["recv"] and u is not None:
                    x["recv"] = u
                    n += 1
        elif x.get("k") == "ref" and "x" in x:
            u = _unblk(x["x"])
            if u is not x["x"] and u is not None:
                x["x"] = u
                n += 1
    return n


def lift_arg_blocks(fn, types):
    """D14  a block with statements used as an argument (or receiver) of a call is lifted around the call:
        f(a, { s1; s2; t })   ->   { s1; s2; f(a, t) }
    when the other operands are literals or places rooted in locals that s1; s2 do not change (so the order in which the operands
    and the statements are evaluated cannot matter).  Together with D10 this makes an inlined helper used as an argument read like
    straight-line code."""
    n = 0

    def simple(a, muts):
        a0 = _unblk(a)
        if a0 is None:
            return False
        if a0.get("k") in ("lit", "path"):
            return True
        if a0.get("k") == "closure":
            return True
        if _pure_bound(a0):
            return not any(x.get("k") == "local" and x["hid"] in muts for x in _walk(a0))
        return False

    def rewrite(x):
        nonlocal n
        if isinstance(x, list):
            return [rewrite(v) for v in x]
        if not isinstance(x, dict):
            return x
        for k_, v in list(x.items()):
            if isinstance(v, (dict, list)):
                x[k_] = rewrite(v)
        if x.get("k") not in ("call", "mcall") or x.get("mac"):
            return x
        ops = ([("recv", None)] if x["k"] == "mcall" else []) + [("args", i) for i in range(len(x["args"]))]
        cand = []
        for (key, i) in ops:
            a = x[key] if i is None else x[key][i]
            if isinstance(a, dict) and a.get("k") == "blk" and a.get("lbl") is None and not a.get("unsafe") and a["b"].get("k") == "block" and a["b"]["stmts"] and a["b"].get("tail") is not None:
                cand.append((key, i, a))
        if len(cand) != 1:
            return x
        key, i, a = cand[0]
        muts = _mutations(a["b"]["stmts"], types)
        for (k2, j) in ops:
            if (k2, j) == (key, i):
                continue
            o = x[k2] if j is None else x[k2][j]
            if not simple(o, muts):
                return x
        if i is None:
            x[key] = a["b"]["tail"]
        else:
            x[key][i] = a["b"]["tail"]
        out = {"k": "blk", "b": {"k": "block", "stmts": a["b"]["stmts"], "tail": x}, "line": x.get("line"), "lifted": True}
        for tk in ("t", "ta"):
            if tk in x:
                out[tk] = x[tk]
        n += 1
        return out
    if fn.get("body") is not None:
        fn["body"] = rewrite(fn["body"])
    return n


def compound_assignments(fn):
    """D15  `x = x + e` -> `x += e`   (also `x = e + x`, `x = x * e`, `x = e * x`, `x = x - e`, `x = x / e`) for a place x whose
    evaluation has no side effects: the compound operators on the primitive number types are defined as exactly this."""
    n = 0
    for x in _walk(fn.get("body")):
        if x.get("k") != "assign":
            continue
        l, r = _unblk(x["l"]), _unblk(x["r"])
        if l is None or r is None or r.get("k") != "bin" or r["op"] not in ("Add", "Sub", "Mul", "Div") or not _pure_place_idx(l):
            continue
        a, b = _unblk(r["l"]), _unblk(r["r"])
        same = lambda u: u is not None and _same_place(u, l)
        if same(a):
            other = r["r"]
        elif same(b) and r["op"] in ("Add", "Mul"):
            other = r["l"]
        else:
            continue
        if _mentions_place(other, l) and False:
            continue
        x["k"] = "assignop"
        x["op"] = r["op"] + "Assign"
        x["r"] = other
        x["from_assign"] = True
        n += 1
    return n


def _same_place(a, b):
    a, b = _unblk(a), _unblk(b)
    if a is None or b is None or a.get("k") != b.get("k"):
        return False
    k = a["k"]
    if k == "local":
        return a["hid"] == b["hid"]
    if k == "field":
        return a["f"] == b["f"] and _same_place(a["b"], b["b"])
    if k == "index":
        return _same_place(a["b"], b["b"]) and _same_place(a["i"], b["i"])
    if k == "lit":
        return a.get("v") == b.get("v")
    if k == "un":
        return a.get("op") == b.get("op") and _same_place(a["x"], b["x"])
    if k == "ref":
        return _same_place(a["x"], b["x"])
    return False


def _mentions_place(n, place):
    return False


def push_nests_to_index(fn, types):
    """D16 (loop-nest extractor only)  a vector built by one `push` at the end of every iteration of an index loop is read in its
    indexed form:
        let mut v = Vec::new(); for i in 0..n { ..; v.push(e); }         ->   let mut v = vec![<zero>; n]; for i in 0..n { ..; v[i] = e; }
    and when e is itself a local built that way inside the iteration, that local *is* the cell v[i]:
        .. { let mut r = Vec::new(); for j in 0..m { ..; r.push(x) }; v.push(r) }   ->   let mut v = vec![vec![<zero>; m]; n]; .. { for j in 0..m { ..; v[i][j] = x } }
    Conditions: the loop runs over `0..n` and neither breaks nor continues; v is mentioned nowhere else inside the loop nor between its
    declaration and the loop; the inner extents do not depend on anything bound inside the outer loop."""
    n = 0
    allocs = {}          # hid -> [extent nodes]

    def is_empty_vec(e):
        e = _unblk(e)
        return e is not None and e.get("k") == "call" and "Vec" in str(e.get("callee")) and str(e.get("callee")).rsplit("::", 1)[-1] in ("new", "with_capacity")

    def binds_under(x):
        out = set()
        for y in _walk(x):
            if y.get("k") == "bind":
                out.add(y["hid"])
        return out

    def subst_local(x, hid, repl):
        if isinstance(x, list):
            return [subst_local(v, hid, repl) for v in x]
        if not isinstance(x, dict):
            return x
        if x.get("k") == "local" and x.get("hid") == hid:
            r = copy.deepcopy(repl)
            return r
        for k_, v in list(x.items()):
            if isinstance(v, (dict, list)):
                x[k_] = subst_local(v, hid, repl)
        return x

    def do_block(b):
        nonlocal n
        # innermost first
        for s in b["stmts"]:
            for y in _walk(s):
                if y is not b and y.get("k") == "block":
                    pass
        i = 0
        while i < len(b["stmts"]):
            s = b["stmts"][i]
            if not (s.get("k") == "let" and s["pat"].get("k") == "bind" and is_empty_vec(s.get("init"))):
                i += 1
                continue
            vh = s["pat"]["hid"]
            # the loop that fills it
            done = False
            for j in range(i + 1, len(b["stmts"])):
                lp = b["stmts"][j]
                if lp.get("k") != "for" or not _mentions(lp, vh):
                    if _mentions(lp, vh):
                        break
                    continue
                it = _unblk(lp["iter"])
                if not (it is not None and it.get("k") == "struct" and it.get("path") == "std::ops::Range"):
                    break
                fs = dict((a_, b_) for a_, b_ in it["fs"])
                st0 = _unblk(fs["start"])
                if not (st0.get("k") == "lit" and str(st0.get("v")).replace("usize", "").rstrip("_") == "0") or lp["pat"].get("k") != "bind":
                    break
                body = lp["body"]["b"] if lp["body"].get("k") == "blk" else None
                if body is None or body.get("tail") is not None and False:
                    break
                items = list(body["stmts"]) + ([body["tail"]] if body.get("tail") is not None else [])
                if not items:
                    break
                last = _unblk(items[-1])
                if not (last is not None and last.get("k") == "mcall" and last.get("name") == "push" and len(last["args"]) == 1
                        and _unblk(last["recv"]).get("k") == "local" and _unblk(last["recv"])["hid"] == vh):
                    break
                if any(_mentions(x_, vh) for x_ in items[:-1]) or _mentions(last["args"][0], vh):
                    break
                lid = lp.get("loop_id")
                if any(y.get("k") in ("break", "continue") and y.get("label") in (lid, None) for x_ in items for y in _walk(x_)) or any(y.get("k") == "ret" for x_ in items for y in _walk(x_)):
                    break
                end = fs["end"]
                ivar = {"k": "local", "name": lp["pat"]["name"], "hid": lp["pat"]["hid"], "t": lp["pat"].get("t"), "line": lp.get("line")}
                vloc = {"k": "local", "name": s["pat"]["name"], "hid": vh, "t": s["pat"].get("t"), "line": lp.get("line")}
                arg = _unblk(last["args"][0])
                cell = {"k": "index", "b": vloc, "i": ivar, "t": arg.get("t"), "line": last.get("line")}
                inner_ext = None
                if arg.get("k") == "local" and arg["hid"] not in allocs:
                    # the pushed local was allocated at its full extent (`vec![vec![0.0; w]; h]`) and filled by indexed stores: the same cell
                    for x_ in items[:-1]:
                        if x_.get("k") == "let" and x_["pat"].get("k") == "bind" and x_["pat"]["hid"] == arg["hid"] and x_.get("init") is not None:
                            e_ = _unblk(x_["init"])
                            exts_ = []
                            while e_ is not None and e_.get("k") == "call" and str(e_.get("callee", "")).endswith("from_elem") and len(e_["args"]) == 2:
                                exts_.append(e_["args"][1])
                                e_ = _unblk(e_["args"][0])
                            if exts_ and e_ is not None and e_.get("k") == "lit":
                                allocs[arg["hid"]] = exts_
                if arg.get("k") == "local" and arg["hid"] in allocs:
                    rdecl = [k_ for k_, x_ in enumerate(items[:-1]) if x_.get("k") == "let" and x_["pat"].get("k") == "bind" and x_["pat"]["hid"] == arg["hid"]]
                    bound = binds_under(lp)
                    if len(rdecl) == 1 and not any(y.get("k") == "local" and y["hid"] in bound for e_ in allocs[arg["hid"]] for y in _walk(e_)):
                        inner_ext = allocs[arg["hid"]]
                        k0 = rdecl[0]
                        cell["t"] = items[k0]["pat"].get("t")
                        new_items = [subst_local(x_, arg["hid"], cell) for x_ in items[k0 + 1:-1]]
                        items = items[:k0] + new_items
                        body["stmts"], body["tail"] = items, None
                if inner_ext is None:
                    store = {"k": "assign", "l": cell, "r": last["args"][0], "line": last.get("line"), "from_push": True}
                    items = items[:-1] + [store]
                    body["stmts"], body["tail"] = items, None
                allocs[vh] = [end] + (inner_ext or [])
                done = True
                n += 1
                break
            i += 1
        return

    def alloc_expr(exts, line):
        cur = {"k": "lit", "v": "0.0", "line": line}
        for e in reversed(exts):
            cur = {"k": "call", "callee": "std::vec::from_elem", "f": {"k": "path", "def": "std::vec::from_elem", "mac": "vec"}, "args": [cur, copy.deepcopy(e)], "mac": "vec", "line": line}
        return cur
    blocks = [b for b in _walk(fn.get("body")) if b.get("k") == "block"]
    # innermost blocks first: deeper blocks appear later in a pre-order walk only roughly; order by nesting depth instead
    depth = {}

    def mark(x, d):
        if isinstance(x, dict):
            if x.get("k") == "block":
                depth[id(x)] = d
                d += 1
            for v in x.values():
                mark(v, d)
        elif isinstance(x, list):
            for v in x:
                mark(v, d)
    mark(fn.get("body"), 0)
    for b in sorted(blocks, key=lambda x: -depth.get(id(x), 0)):
        do_block(b)
    # turn the declarations of the converted vectors into allocations of the recorded extents
    for b in blocks:
        for s in b["stmts"]:
            if s.get("k") == "let" and s["pat"].get("k") == "bind" and s["pat"]["hid"] in allocs and is_empty_vec(s.get("init")):
                s["init"] = alloc_expr(allocs[s["pat"]["hid"]], s.get("line"))
                s["from_push_nest"] = True
    return n


def mut_ref_aliases(fn):
    """D17  `let x = &mut PLACE;` with PLACE a side-effect-free place expression whose index variables are not assigned while x is in
    scope, and x never re-bound: every use of x is a use of PLACE (`x[i]`, `x.m()`, `*x = v`).  Writes through the alias are then seen
    as writes to the place itself."""
    n = 0
    for b in list(_walk(fn.get("body"))):
        if b.get("k") != "block":
            continue
        i = 0
        while i < len(b["stmts"]):
            s = b["stmts"][i]
            init = _unblk(s.get("init")) if s.get("k") == "let" else None
            # `let a = v[i];` where nothing in this function writes v (an immutable binding): a names that element while i keeps its value
            elem_copy = (s.get("k") == "let" and not s.get("els") and s["pat"].get("k") == "bind" and not s["pat"].get("sub") and init is not None
                         and init.get("k") == "index" and str(s["pat"].get("mode")).endswith("No, Not)") and _root_of_place(init) is not None
                         and s["pat"].get("t") is not None and _TYPES[0] and s["pat"]["t"] < len(_TYPES[0]) and _TYPES[0][s["pat"]["t"]].startswith("&")
                         and _never_written(fn, [(_root_of_place(init)["hid"], None)])
                         and _root_of_place(init)["hid"] not in _assigned_locals([fn["body"]]))
            if elem_copy:
                init = {"k": "ref", "mut": False, "x": init}
            if not (s.get("k") == "let" and not s.get("els") and s["pat"].get("k") == "bind" and not s["pat"].get("sub") and init is not None
                    and init.get("k") == "ref" and (init.get("mut") or elem_copy) and "Ref" not in str(s["pat"].get("mode"))):
                i += 1
                continue
            place = _unblk(init["x"])
            while place is not None and place.get("k") == "ref" and isinstance(place.get("x"), dict):
                place = _unblk(place["x"])          # `&mut &mut P` names P as well
            if place is None or not _pure_place_idx(place) or place.get("k") not in ("index", "field", "local"):
                i += 1
                continue
            if place.get("k") == "local" and place["hid"] == s["pat"]["hid"]:
                i += 1
                continue
            xh = s["pat"]["hid"]
            later = b["stmts"][i + 1:] + ([b["tail"]] if b.get("tail") is not None else [])
            idx_locals = {y["hid"] for y in _walk(place) if y.get("k") == "local"}
            root = _root(place)
            bad = False
            last_use = max([k_ for k_, x in enumerate(later) if _mentions(x, xh)] or [-1])
            for k_, x in enumerate(later):
                for y in _walk(x):
                    if y.get("k") in ("assign", "assignop"):
                        l = _unblk(y["l"])
                        # (an index variable changed after the last use of the alias cannot change what the alias named)
                        if l is not None and l.get("k") == "local" and (l["hid"] == xh or (l["hid"] in idx_locals and k_ <= last_use)):
                            bad = True
                    if y.get("k") == "ref" and _unblk(y["x"]) is not None and _unblk(y["x"]).get("k") == "local" and _unblk(y["x"])["hid"] == xh:
                        bad = True       # `&mut x` / `&x`: the reference itself is observed
            if bad:
                i += 1
                continue

            def subst(x):
                if isinstance(x, list):
                    return [subst(v) for v in x]
                if not isinstance(x, dict):
                    return x
                if x.get("k") == "un" and x.get("op") == "Deref":
                    inner = _unblk(x["x"])
                    if inner is not None and inner.get("k") == "local" and inner["hid"] == xh:
                        r = copy.deepcopy(place)
                        for key in ("ta",):
                            if key in x:
                                r[key] = x[key]
                        return r
                if x.get("k") == "local" and x.get("hid") == xh:
                    r = copy.deepcopy(place)
                    if "ta" in x:
                        r["ta"] = x["ta"]
                    elif "t" in x:
                        r["ta"] = x["t"]
                    return r
                for k_, v in list(x.items()):
                    if isinstance(v, (dict, list)):
                        x[k_] = subst(v)
                return x
            for j in range(i + 1, len(b["stmts"])):
                b["stmts"][j] = subst(b["stmts"][j])
            if b.get("tail") is not None:
                b["tail"] = subst(b["tail"])
            del b["stmts"][i]
            n += 1
    return n


def range_for_each(fn):
    """D20  `(a..b).for_each(|i| body)` as a statement  ->  `for i in a..b { body }`   (the closure does not `return`)"""
    n = 0
    for b in list(_walk(fn.get("body"))):
        if b.get("k") != "block":
            continue
        items = list(b["stmts"]) + ([b["tail"]] if b.get("tail") is not None else [])
        for i, s in enumerate(items):
            s0 = _unblk(s)
            if not (s0 is not None and s0.get("k") == "mcall" and s0.get("name") == "for_each" and len(s0["args"]) == 1):
                continue
            rng = _unblk(s0["recv"])
            cl = _unblk(s0["args"][0])
            if not (rng is not None and rng.get("k") == "struct" and rng.get("path") == "std::ops::Range" and cl is not None and cl.get("k") == "closure"
                    and len(cl.get("params") or []) == 1 and cl["params"][0].get("k") in ("bind", "wild")):
                continue
            if any(y.get("k") == "ret" for y in _walk(cl["body"])):
                continue
            body = cl["body"] if cl["body"].get("k") == "blk" else {"k": "blk", "b": {"k": "block", "stmts": [cl["body"]], "tail": None}, "line": cl.get("line")}
            lp = {"k": "for", "pat": cl["params"][0], "iter": rng, "body": body, "loop_id": 8000000 + int(cl.get("id", 0) or 0), "line": s0.get("line"), "from_for_each": True}
            if i < len(b["stmts"]):
                b["stmts"][i] = lp
            else:
                b["tail"] = None
                b["stmts"].append(lp)
            n += 1
    return n


_MC = [0]


def range_map_collect_to_push(fn, types):
    """D21 (loop-nest extractor only)  `(0..n).map(|i| e).collect()`  ->  `{ let mut v = Vec::new(); for i in 0..n { v.push(e); } v }`
    (what collect() of a mapped range builds, one element per index, in order).  The closure must not `return` early."""
    n = 0

    def rewrite(x):
        nonlocal n
        if isinstance(x, list):
            return [rewrite(v) for v in x]
        if not isinstance(x, dict):
            return x
        for k_, v in list(x.items()):
            if isinstance(v, (dict, list)):
                x[k_] = rewrite(v)
        if not (x.get("k") == "mcall" and x.get("name") == "collect" and not x["args"]):
            return x
        mp = _unblk(x["recv"])
        if not (mp is not None and mp.get("k") == "mcall" and mp.get("name") == "map" and len(mp["args"]) == 1):
            return x
        rng = _unblk(mp["recv"])
        cl = _unblk(mp["args"][0])
        if not (rng is not None and rng.get("k") == "struct" and rng.get("path") == "std::ops::Range" and cl is not None and cl.get("k") == "closure"
                and len(cl.get("params") or []) == 1 and cl["params"][0].get("k") == "bind"):
            return x        # (a `|_|` closure builds an allocation of equal entries: mac.alloc_builder reads that form itself)
        if any(y.get("k") == "ret" for y in _walk(cl["body"])):
            return x
        _MC[0] += 1
        vh = 9500000 + _MC[0]
        line = x.get("line")
        vt = x.get("t")
        vloc = lambda: {"k": "local", "name": "_mc%d" % _MC[0], "hid": vh, "t": vt, "ta": None, "line": line}
        ta_mut = None
        for i_, t_ in enumerate(types):
            if vt is not None and vt < len(types) and t_ == "&mut " + types[vt]:
                ta_mut = i_
        recv = vloc()
        recv["ta"] = ta_mut
        push = {"k": "mcall", "name": "push", "callee": "std::vec::Vec::<T, A>::push", "recv": recv, "args": [cl["body"]], "line": line}
        lp = {"k": "for", "pat": cl["params"][0], "iter": rng, "loop_id": 9600000 + _MC[0], "line": line, "from_map_collect": True,
              "body": {"k": "blk", "b": {"k": "block", "stmts": [push], "tail": None}, "line": line}}
        decl = {"k": "let", "pat": {"k": "bind", "name": "_mc%d" % _MC[0], "hid": vh, "mode": "BindingMode(No, Mut)", "t": vt},
                "init": {"k": "call", "callee": "std::vec::Vec::<T>::new", "f": {"k": "path", "def": "std::vec::Vec::<T>::new"}, "args": [], "t": vt, "line": line},
                "els": None, "line": line}
        n += 1
        out = {"k": "blk", "b": {"k": "block", "stmts": [decl, lp], "tail": vloc()}, "line": line, "from_map_collect": True}
        if vt is not None:
            out["t"] = vt
        return out
    if fn.get("body") is not None:
        fn["body"] = rewrite(fn["body"])
    return n


def _div_stmt(els):
    """the single `continue` / `break` / `return` (without value) that a block consists of, else None"""
    e = els
    while e is not None and ((e.get("k") == "blk" and e.get("lbl") is None and len(e["b"]["stmts"]) + (1 if e["b"].get("tail") is not None else 0) == 1)
                             or (e.get("k") == "block" and len(e["stmts"]) + (1 if e.get("tail") is not None else 0) == 1)):
        if e.get("k") == "blk":
            e = e["b"]["stmts"][0] if e["b"]["stmts"] else e["b"]["tail"]
        else:
            e = e["stmts"][0] if e["stmts"] else e["tail"]
    if e is not None and e.get("k") in ("continue", "break", "ret") and e.get("v") is None:
        return e
    return None


def option_case_of_case(fn):
    """D19  matching on an Option that was itself produced by matching on an Option:
        if let Some(P) = (match e { Some(Q) => B, None => None }) { T }      ->   if let Some(Q) = e { if let Some(P) = B { T } }
        if let Some(P) = Some(v) { T }                                         ->   { let P = v; T }
        if let Some(P) = None { T }                                            ->   (nothing)
    also when the inner match is first bound to an immutable local that is used nowhere else (`let t = match ..; if let Some(P) = t {..}`).
    Only for `if let` without an `else` branch (nothing would have to be duplicated)."""
    n = 0

    def is_some_pat(p):
        while p is not None and p.get("k") in ("ref", "deref"):
            p = p["p"]
        return p if (p is not None and p.get("k") == "tstruct" and p["path"].endswith("::Some") and len(p.get("ps") or []) == 1) else None

    def is_none_pat(p):
        while p is not None and p.get("k") in ("ref", "deref"):
            p = p["p"]
        return p is not None and ((p.get("k") == "ppath" and p["path"].endswith("::None")) or p.get("k") == "wild")

    def simplify(iff):
        """iff: an `if` node with letx condition and no else -> replacement node (or None when nothing applies)"""
        nonlocal n
        c = _unblk(iff["c"])
        sp = is_some_pat(c["pat"])
        if sp is None:
            return None
        els = iff.get("el")
        if els is not None and _div_stmt(els) is None:
            return None
        mk_el = (lambda: copy.deepcopy(els)) if els is not None else (lambda: None)
        init = _unblk(c["init"])
        if init is None:
            return None
        line = iff.get("line")
        if init.get("k") == "call" and str(init.get("callee", "")).endswith("::Some") and len(init["args"]) == 1:
            n += 1
            th = iff["th"]
            inner = th["b"] if th.get("k") == "blk" and th.get("lbl") is None else {"k": "block", "stmts": [], "tail": th}
            let = {"k": "let", "pat": sp["ps"][0], "init": init["args"][0], "els": None, "line": line}
            return {"k": "blk", "b": {"k": "block", "stmts": [let] + list(inner["stmts"]), "tail": inner.get("tail")}, "line": line, "from_case_of_case": True}
        if init.get("k") == "path" and str(init.get("def", "")).endswith("::None"):
            n += 1
            return mk_el() if els is not None else {"k": "tup", "xs": [], "line": line}
        if init.get("k") == "if" and init.get("el") is not None and _unblk(init["c"]) is not None and _unblk(init["c"]).get("k") != "letx":
            th_, el_ = _unblk(init["th"]), _unblk(init["el"])
            if (th_ is not None and th_.get("k") == "call" and str(th_.get("callee", "")).endswith("::Some") and len(th_["args"]) == 1
                    and el_ is not None and el_.get("k") == "path" and str(el_.get("def", "")).endswith("::None")):
                # if let Some(P) = (if c { Some(v) } else { None }) { T }   ->   if c { let P = v; T }
                n += 1
                inner_if = {"k": "if", "c": {"k": "letx", "pat": c["pat"], "init": th_, "line": line}, "th": iff["th"], "el": mk_el(), "line": line}
                inner_r = simplify(inner_if) or inner_if
                return {"k": "if", "c": init["c"], "th": {"k": "blk", "b": {"k": "block", "stmts": [inner_r], "tail": None}, "line": line}, "el": mk_el(), "line": line, "from_case_of_case": True}
        if init.get("k") == "match" and len(init["arms"]) == 2 and all(a.get("guard") is None for a in init["arms"]):
            some = [a for a in init["arms"] if is_some_pat(a["pat"]) is not None]
            none = [a for a in init["arms"] if is_none_pat(a["pat"])]
            if len(some) == 1 and len(none) == 1:
                nb = _unblk(none[0]["body"])
                if nb is not None and nb.get("k") == "path" and str(nb.get("def", "")).endswith("::None"):
                    n += 1
                    inner_if = {"k": "if", "c": {"k": "letx", "pat": c["pat"], "init": some[0]["body"], "line": line}, "th": iff["th"], "el": mk_el(), "line": line}
                    inner_r = simplify(inner_if) or inner_if
                    return {"k": "if", "c": {"k": "letx", "pat": some[0]["pat"], "init": init["scrut"], "line": line},
                            "th": {"k": "blk", "b": {"k": "block", "stmts": [inner_r], "tail": None}, "line": line}, "el": mk_el(), "line": line, "from_case_of_case": True}
        return None

    def rewrite(x):
        nonlocal n
        if isinstance(x, list):
            return [rewrite(v) for v in x]
        if not isinstance(x, dict):
            return x
        for k_, v in list(x.items()):
            if isinstance(v, (dict, list)):
                x[k_] = rewrite(v)
        if x.get("k") == "block":
            for i_, s_ in enumerate(list(x["stmts"]) + ([x["tail"]] if x.get("tail") is not None else [])):
                if (isinstance(s_, dict) and s_.get("k") == "match" and not s_.get("mac") and len(s_["arms"]) == 2 and all(a.get("guard") is None for a in s_["arms"])
                        and is_some_pat(s_["arms"][0]["pat"]) is not None and is_none_pat(s_["arms"][1]["pat"]) and _div_stmt(s_["arms"][1]["body"]) is not None):
                    sc_ = _unblk(s_["scrut"])
                    prev = x["stmts"][i_ - 1] if 0 < i_ <= len(x["stmts"]) else None
                    bound = (sc_ is not None and sc_.get("k") == "local" and prev is not None and prev.get("k") == "let" and prev["pat"].get("k") == "bind"
                             and prev["pat"]["hid"] == sc_["hid"] and prev.get("init") is not None and _unblk(prev["init"]).get("k") in ("match", "if"))
                    if (sc_ is not None and sc_.get("k") in ("match", "if")) or bound:
                        th_ = s_["arms"][0]["body"]
                        th_ = th_ if th_.get("k") == "blk" else {"k": "blk", "b": {"k": "block", "stmts": [th_], "tail": None} if th_.get("k") in ("assign", "assignop", "if", "for", "match", "continue", "break") else {"k": "block", "stmts": [], "tail": th_}, "line": th_.get("line")}
                        el_ = s_["arms"][1]["body"]
                        el_ = el_ if el_.get("k") == "blk" else {"k": "blk", "b": {"k": "block", "stmts": [el_], "tail": None}, "line": el_.get("line")}
                        new_ = {"k": "if", "c": {"k": "letx", "pat": s_["arms"][0]["pat"], "init": s_["scrut"], "line": s_.get("line")}, "th": th_, "el": el_, "line": s_.get("line"), "from_match_stmt": True}
                        if i_ < len(x["stmts"]):
                            x["stmts"][i_] = new_
                        else:
                            x["tail"] = new_
                        n += 1
            # `let t = <option match>; if let Some(P) = t { .. }` with t used nowhere else
            i = 0
            while i + 1 < len(x["stmts"]) + (1 if x.get("tail") is not None else 0):
                s = x["stmts"][i] if i < len(x["stmts"]) else None
                nxt = x["stmts"][i + 1] if i + 1 < len(x["stmts"]) else x.get("tail")
                if (s is not None and s.get("k") == "let" and s["pat"].get("k") == "bind" and not s.get("els") and "Mut)" not in str(s["pat"].get("mode"))
                        and s.get("init") is not None and _unblk(s["init"]).get("k") == "match" and nxt is not None and nxt.get("k") == "if"
                        and _unblk(nxt["c"]) is not None and _unblk(nxt["c"]).get("k") == "letx" and (nxt.get("el") is None or _div_stmt(nxt["el"]) is not None)):
                    cn = _unblk(nxt["c"])
                    ci = _unblk(cn["init"])
                    hid = s["pat"]["hid"]
                    rest = (x["stmts"][i + 2:] if i + 1 < len(x["stmts"]) else []) + ([x["tail"]] if (x.get("tail") is not None and nxt is not x.get("tail")) else [])
                    if (ci is not None and ci.get("k") == "local" and ci["hid"] == hid and not _mentions(nxt["th"], hid) and not (nxt.get("el") is not None and _mentions(nxt["el"], hid)) and not any(_mentions(r_, hid) for r_ in rest)
                            and is_some_pat(cn["pat"]) is not None):
                        cn["init"] = s["init"]
                        del x["stmts"][i]
                        continue
                i += 1
            x["stmts"] = [(simplify(s_) or s_) if (s_.get("k") == "if" and _unblk(s_["c"]) is not None and _unblk(s_["c"]).get("k") == "letx") else s_ for s_ in x["stmts"]]
            t = x.get("tail")
            if isinstance(t, dict) and t.get("k") == "if" and _unblk(t["c"]) is not None and _unblk(t["c"]).get("k") == "letx":
                x["tail"] = simplify(t) or t
        return x
    if fn.get("body") is not None:
        fn["body"] = rewrite(fn["body"])
    return n


def _is_unit(n):
    n0 = n
    while n0 is not None and n0.get("k") == "blk" and n0.get("lbl") is None and not n0["b"]["stmts"]:
        if n0["b"]["tail"] is None:
            return True
        n0 = n0["b"]["tail"]
    return n0 is not None and n0.get("k") == "tup" and not n0["xs"]


def _subsumes(p, q):
    """does pattern p match every value pattern q matches (syntactic, conservative)"""
    while p is not None and p.get("k") in ("ref", "deref"):
        p = p["p"]
    while q is not None and q.get("k") in ("ref", "deref"):
        q = q["p"]
    if p is None or q is None:
        return False
    if p.get("k") == "wild" or (p.get("k") == "bind" and not p.get("sub")):
        return True
    if p.get("k") == "tstruct" and q.get("k") == "tstruct" and p["path"] == q["path"] and len(p["ps"]) == len(q["ps"]):
        return all(_subsumes(a, b) for a, b in zip(p["ps"], q["ps"]))
    if p.get("k") == "ppath" and q.get("k") == "ppath":
        return p["path"] == q["path"]
    if p.get("k") == "tuple" and q.get("k") == "tuple" and len(p["ps"]) == len(q["ps"]):
        return all(_subsumes(a, b) for a, b in zip(p["ps"], q["ps"]))
    return False


def _disjoint(p, q):
    """can no value match both p and q (syntactic, conservative)"""
    while p is not None and p.get("k") in ("ref", "deref"):
        p = p["p"]
    while q is not None and q.get("k") in ("ref", "deref"):
        q = q["p"]
    if p is None or q is None:
        return False
    kp, kq = p.get("k"), q.get("k")
    if kp in ("tstruct", "ppath") and kq in ("tstruct", "ppath"):
        if p["path"] != q["path"]:
            return True
        if kp == kq == "tstruct" and len(p["ps"]) == len(q["ps"]):
            return any(_disjoint(a, b) for a, b in zip(p["ps"], q["ps"]))
        return False
    if kp == kq == "tuple" and len(p["ps"]) == len(q["ps"]):
        return any(_disjoint(a, b) for a, b in zip(p["ps"], q["ps"]))
    if kp == kq == "plit":
        return str(p.get("v")) != str(q.get("v"))
    return False


def match_guards(fn):
    """D22  arm guards of a `match` on a side-effect free place are written as nested conditionals:
        match x { P if g => A, rest.. }   ->   match x { P => if g { A } else { match x { rest'.. } }, rest.. }
    where rest' are the later arms that can still match a value of shape P (when the first of them matches every such value and binds nothing,
    the inner match is just its body); arms made unreachable by an earlier unguarded arm are dropped; a match left with
    `Some(p) => B, _ => ()` in unit position becomes `if let Some(p) = x { B }`.  First-match semantics are preserved exactly."""
    import copy
    n = 0

    def size(x):
        return sum(1 for _ in _walk(x))

    def lower(scrut, arms, line, known=None):
        """-> expression equivalent to `match scrut { arms }` for values matching pattern `known` (or any value)"""
        nonlocal n
        if known is not None:
            arms = [a for a in arms if not _disjoint(a["pat"], known)]
            if arms and arms[0].get("guard") is None and _subsumes(arms[0]["pat"], known) and not _binds(arms[0]["pat"]):
                return arms[0]["body"]
        out = []
        for i, a in enumerate(arms):
            if any(o.get("guard") is None and _subsumes(o["pat"], a["pat"]) for o in out):
                continue
            if a.get("guard") is None:
                out.append(a)
                continue
            rest = copy.deepcopy(arms[i + 1:])
            els = lower(scrut, rest, line, a["pat"]) if rest else {"k": "tup", "xs": [], "line": line}
            body = a["body"] if a["body"].get("k") == "blk" else {"k": "blk", "b": {"k": "block", "stmts": [], "tail": a["body"]}, "line": a["body"].get("line")}
            if _is_unit(els):
                els = None
            elif els.get("k") not in ("blk", "if"):
                els = {"k": "blk", "b": {"k": "block", "stmts": [], "tail": els}, "line": line}
            iff = {"k": "if", "c": a["guard"], "th": body, "el": els, "line": a.get("line", line), "from_guard": True}
            if "t" in a["body"]:
                iff["t"] = a["body"]["t"]
            out.append({**a, "guard": None, "body": iff})
            n += 1
        m = {"k": "match", "scrut": copy.deepcopy(scrut) if known is not None else scrut, "arms": out, "line": line}
        return single(m)

    def single(x):
        nonlocal n
        if x.get("k") == "match" and len(x["arms"]) == 1 and x["arms"][0].get("guard") is None and not _refutable(x["arms"][0]["pat"]) and x.get("src") in (None, "Normal") and not x.get("mac"):
            # `match e { p => body }` with an irrefutable p  ->  `{ let p = e; body }`
            a = x["arms"][0]
            line = x.get("line")
            stmts = [] if a["pat"].get("k") == "wild" and _pure_place(x["scrut"]) else [{"k": "let", "pat": a["pat"], "init": x["scrut"], "els": None, "line": line}]
            out = {"k": "blk", "b": {"k": "block", "stmts": stmts, "tail": a["body"]}, "line": line, "from_guard": True}
            for key in ("t", "ta"):
                if key in x:
                    out[key] = x[key]
            n += 1
            return out
        return x

    def rewrite(x):
        nonlocal n
        if isinstance(x, list):
            return [rewrite(v) for v in x]
        if not isinstance(x, dict):
            return x
        for k_, v in list(x.items()):
            if isinstance(v, (dict, list)):
                x[k_] = rewrite(v)
        if x.get("k") == "match" and len(x["arms"]) == 1:
            x = single(x)
            if x.get("k") != "match":
                return x
        if x.get("k") == "match" and any(a.get("guard") is not None for a in x["arms"]) and (_pure_place(x["scrut"]) or _pure_access(x["scrut"])):
            g = [i for i, a in enumerate(x["arms"]) if a.get("guard") is not None]
            if size({"k": "x", "arms": x["arms"][g[0] + 1:]}) <= 600:
                m = lower(x["scrut"], x["arms"], x.get("line"))
                for key in ("t", "id", "src"):
                    if key in x:
                        m[key] = x[key]
                x = m
                if x.get("k") != "match":
                    return x
                arms = x["arms"]
                if (len(arms) == 2 and _refutable(arms[0]["pat"]) and not _binds(arms[1]["pat"]) and _is_unit(arms[1]["body"])
                        and (arms[1]["pat"].get("k") in ("wild", "ppath")) and arms[0]["body"].get("k") in ("if", "blk")):
                    th = arms[0]["body"]
                    if th.get("k") != "blk":
                        th = {"k": "blk", "b": {"k": "block", "stmts": [th], "tail": None}, "line": th.get("line")}
                    x = {"k": "if", "c": {"k": "letx", "pat": arms[0]["pat"], "init": x["scrut"], "line": x.get("line")}, "th": th, "el": None,
                         "line": x.get("line"), "from_guard": True}
        return x
    if fn.get("body") is not None:
        fn["body"] = rewrite(fn["body"])
    return n


def _eq_expr(a, b):
    """structural equality of two expressions (binding identities included; positions and type ids ignored)"""
    if isinstance(a, dict) and isinstance(b, dict):
        ka = {k_ for k_ in a if k_ not in ("id", "line", "t", "ta")}
        kb = {k_ for k_ in b if k_ not in ("id", "line", "t", "ta")}
        return ka == kb and all(_eq_expr(a[k_], b[k_]) for k_ in ka)
    if isinstance(a, list) and isinstance(b, list):
        return len(a) == len(b) and all(_eq_expr(x, y) for x, y in zip(a, b))
    return a == b


def _noref(n):
    """the scrutinee with the borrows of its (tuple) components removed: `(&mut a, &b)` and `(a, b)` test the same values"""
    n = _unblk(n)
    if n is None:
        return n
    if n.get("k") == "ref" or (n.get("k") == "un" and n.get("op") == "Deref"):
        return _noref(n["x"])
    if n.get("k") == "tup":
        return {"k": "tup", "xs": [_noref(x) for x in n["xs"]]}
    return n


def _pure_access(n, depth=0):
    """a place reached by fields, side-effect free indices, borrows and derefs from a local"""
    n = _unblk(n)
    if n is None or depth > 8:
        return False
    k = n.get("k")
    if k == "local":
        return True
    if k == "field":
        return _pure_access(n["b"], depth + 1)
    if k == "index":
        return _pure_access(n["b"], depth + 1) and _pure_expr(n["i"])
    if k == "ref" or (k == "un" and n.get("op") == "Deref"):
        return _pure_access(n["x"], depth + 1)
    return False


def _pure_scrutinee(n):
    n0 = _unblk(n)
    if n0 is None:
        return False
    if n0.get("k") == "tup":
        return all(_pure_scrutinee(x) for x in n0["xs"])
    return _pure_place(n0) or _pure_access(n0)


def iflet_chain_to_match(fn):
    """D24  `if let P1 = S { A } else if let P2 = S { B } else { C }` (the same side-effect free S, at least two tests)
        ->  `match S { P1 => A, P2 => B, _ => C }`   (first-match semantics are exactly those of the chain)."""
    n = 0

    def chain(x):
        """-> (scrutinee, [(pat, body)], else or None) for an if-let chain starting at x"""
        c = _unblk(x["c"])
        if c is None or c.get("k") != "letx" or not _pure_scrutinee(c["init"]):
            return None
        arms = [(c["pat"], x["th"])]
        el = x.get("el")
        while el is not None:
            e0 = el
            while e0 is not None and e0.get("k") == "blk" and e0.get("lbl") is None and not e0["b"]["stmts"] and e0["b"].get("tail") is not None:
                e0 = e0["b"]["tail"]
            if e0 is not None and e0.get("k") == "if":
                c2 = _unblk(e0["c"])
                if c2 is not None and c2.get("k") == "letx" and _eq_expr(_noref(_unblk(c2["init"])), _noref(_unblk(c["init"]))):
                    arms.append((c2["pat"], e0["th"]))
                    el = e0.get("el")
                    continue
            break
        return c["init"], arms, el

    def rewrite(x):
        nonlocal n
        if isinstance(x, list):
            return [rewrite(v) for v in x]
        if not isinstance(x, dict):
            return x
        if x.get("k") == "if":
            ch = chain(x)
            if ch is not None and len(ch[1]) >= 2:
                scr, arms, el = ch
                line = x.get("line")
                out = [{"pat": p_, "guard": None, "body": rewrite(b_), "line": b_.get("line")} for (p_, b_) in arms]
                out.append({"pat": {"k": "wild"}, "guard": None, "body": rewrite(el) if el is not None else {"k": "tup", "xs": [], "line": line}, "line": line})
                m = {"k": "match", "scrut": scr, "src": "Normal", "arms": out, "line": line, "from_iflet_chain": True}
                for key in ("t", "ta", "id"):
                    if key in x:
                        m[key] = x[key]
                n += 1
                return m
        for k_, v in list(x.items()):
            if isinstance(v, (dict, list)):
                x[k_] = rewrite(v)
        return x
    if fn.get("body") is not None:
        fn["body"] = rewrite(fn["body"])
    return n


def _pure_expr(n, depth=0):
    n = _unblk(n)
    if n is None or depth > 6:
        return False
    k = n.get("k")
    if k == "lit" or _pure_place(n):
        return True
    if k == "bin":
        return _pure_expr(n["l"], depth + 1) and _pure_expr(n["r"], depth + 1)
    if k == "un" and n.get("op") in ("Not", "Neg", "Deref"):
        return _pure_expr(n["x"], depth + 1)
    if k == "cast":
        return _pure_expr(n["x"], depth + 1)
    return False


def _place_roots(n):
    """(root hid, first field or None) of every place read in the pure expression n"""
    out = []
    for x in _walk(n):
        if x.get("k") == "field":
            b = x["b"]
            while b is not None and b.get("k") in ("ref", "un", "blk"):
                b = b.get("x") if b["k"] != "blk" else b["b"].get("tail")
            if b is not None and b.get("k") == "local":
                out.append((b["hid"], x["f"]))
        elif x.get("k") == "local":
            out.append((x["hid"], None))
    return out


def _never_written(fn, roots):
    """no assignment to / mutable borrow of the places (root local, first field) anywhere in fn; a bare local must be an immutable binding"""
    fields = {(h, f) for (h, f) in roots if f is not None}
    bare = {h for (h, f) in roots if f is None} - {h for (h, f) in fields}
    modes = {}
    for x in list(_walk(fn.get("params") or [])) + list(_walk(fn.get("body"))):
        if x.get("k") == "bind":
            modes[x.get("hid")] = str(x.get("mode"))
    for h in bare:
        if not modes.get(h, "").endswith("Not)"):
            return False
    tys_ = _TYPES[0] or []
    owners = {h for (h, f) in fields}
    for x in _walk(fn.get("body")):
        tgt = None
        if x.get("k") in ("assign", "assignop"):
            tgt = x["l"]
        elif x.get("k") == "ref" and x.get("mut"):
            tgt = x["x"]
        elif x.get("k") == "mcall":
            # a `&mut self` method called on the whole object (auto-borrowed: no `&mut` node) may write any of its fields
            r_ = _unblk(x.get("recv"))
            while r_ is not None and (r_.get("k") == "ref" or (r_.get("k") == "un" and r_.get("op") == "Deref")):
                r_ = _unblk(r_["x"])
            if r_ is not None and r_.get("k") == "local" and r_.get("hid") in owners:
                ta_ = _unblk(x["recv"]).get("ta")
                if (ta_ is not None and ta_ < len(tys_) and tys_[ta_].startswith("&mut")) and x.get("name") not in ("iter_mut",):
                    return False
        if tgt is None:
            continue
        chain = []
        t = _unblk(tgt)
        while t is not None and t.get("k") in ("field", "index", "un", "ref", "blk"):
            if t["k"] == "field":
                chain.append(t["f"])
                t = _unblk(t["b"])
            elif t["k"] == "index":
                chain.append("[]")
                t = _unblk(t["b"])
            elif t["k"] == "blk":
                t = _unblk(t)
                if t is not None and t.get("k") == "blk":
                    break
            else:
                t = _unblk(t["x"])
        if t is not None and t.get("k") == "local":
            first = chain[-1] if chain else None
            if any(h == t["hid"] and (first is None or first == f) for (h, f) in fields):
                return False
    return True


def _tuple_init(fn, hid):
    """components of `let <hid> = (e0, e1, ..)` when the binding is immutable, declared once, and every e_i is a side-effect free
    expression over places that are never written in the function; else None"""
    lets = [x for x in _walk(fn.get("body")) if x.get("k") == "let" and x["pat"].get("k") == "bind" and x["pat"].get("hid") == hid]
    if len(lets) != 1 or lets[0].get("els") or not str(lets[0]["pat"].get("mode")).endswith("No, Not)"):
        return None
    init = _unblk(lets[0].get("init"))
    if init is None or init.get("k") != "tup" or not init["xs"] or not all(_pure_expr(e) for e in init["xs"]):
        return None
    roots = [r for e in init["xs"] for r in _place_roots(e)]
    if not _never_written(fn, roots):
        return None
    return init["xs"]


def bool_match_to_if(fn):
    """D25  a `match` on a bool or a tuple of bools whose patterns are `true` / `false` / `_` (and `|` of such) is the if-chain it abbreviates:
        match (a, b) { (true, true) => A, (false, _) | (_, false) => B }   ->   if a && b { A } else { B }
    (the compiler checked exhaustiveness, so the last arm needs no test).  The scrutinee is a local or a tuple expression of side-effect
    free components; a local tuple is tested through its projections `s.0`, `s.1`."""
    n = 0

    def conj(pat, comps):
        """pattern -> list of (component index or None, polarity) or None if not a bool pattern"""
        while pat.get("k") in ("ref", "deref"):
            pat = pat["p"]
        k = pat.get("k")
        if k == "wild":
            return []
        if comps is None:
            if k == "plit" and str(pat.get("v")) in ("true", "false"):
                return [(None, str(pat["v"]) == "true")]
            return None
        if k != "tuple" or len(pat["ps"]) != comps:
            return None
        out = []
        for i, q in enumerate(pat["ps"]):
            while q.get("k") in ("ref", "deref"):
                q = q["p"]
            if q.get("k") == "wild":
                continue
            if q.get("k") == "plit" and str(q.get("v")) in ("true", "false"):
                out.append((i, str(q["v"]) == "true"))
            else:
                return None
        return out

    def rewrite(x):
        nonlocal n
        if isinstance(x, list):
            return [rewrite(v) for v in x]
        if not isinstance(x, dict):
            return x
        for k_, v in list(x.items()):
            if isinstance(v, (dict, list)):
                x[k_] = rewrite(v)
        if x.get("k") != "match" or x.get("mac") or len(x["arms"]) < 2 or any(a.get("guard") is not None for a in x["arms"]):
            return x
        scr = _unblk(x["scrut"])
        if scr is None:
            return x
        line = x.get("line")
        if scr.get("k") == "tup" and all(_pure_expr(c_) for c_ in scr["xs"]):
            comps = len(scr["xs"])
            comp = lambda i: copy.deepcopy(scr["xs"][i])
        elif scr.get("k") == "local" and _tuple_init(fn, scr["hid"]) is not None:
            # `let regime = (c1, c2);` with side-effect free components over values that never change: the components themselves are tested
            xs = _tuple_init(fn, scr["hid"])
            comps = len(xs)
            comp = lambda i: copy.deepcopy(xs[i])
        elif scr.get("k") == "local":
            sizes = set()
            for a in x["arms"]:
                for q in (a["pat"]["ps"] if a["pat"].get("k") == "or" else [a["pat"]]):
                    while q.get("k") in ("ref", "deref"):
                        q = q["p"]
                    if q.get("k") == "tuple":
                        sizes.add(len(q["ps"]))
                    elif q.get("k") == "plit":
                        sizes.add(None)
            if len(sizes) != 1:
                return x
            comps = list(sizes)[0]
            comp = (lambda i: {"k": "field", "b": copy.deepcopy(scr), "f": str(i), "line": line}) if comps is not None else (lambda i: copy.deepcopy(scr))
        else:
            return x
        conds = []
        for a in x["arms"]:
            alts = a["pat"]["ps"] if a["pat"].get("k") == "or" else [a["pat"]]
            cs = [conj(q, comps) for q in alts]
            if any(c_ is None for c_ in cs):
                return x
            conds.append(cs)

        def term(i, pol):
            e = comp(i) if i is not None else copy.deepcopy(scr)
            return e if pol else {"k": "un", "op": "Not", "x": e, "line": line}

        def build(cs):
            alts = []
            for c_ in cs:
                if not c_:
                    return None          # matches everything
                e = term(*c_[0])
                for t_ in c_[1:]:
                    e = {"k": "bin", "op": "And", "l": e, "r": term(*t_), "line": line}
                alts.append(e)
            e = alts[0]
            for a_ in alts[1:]:
                e = {"k": "bin", "op": "Or", "l": e, "r": a_, "line": line}
            return e
        # a test already decided by the failure of an earlier arm is not repeated: `(true, _) => A, (false, true) => B` is `if a {A} else if b {B}`
        known = set()
        for k_, cs in enumerate(conds):
            if len(cs) == 1:
                rest_ = [t_ for t_ in cs[0] if t_ not in known]
                if len(rest_) == 1 and (rest_[0][0], not rest_[0][1]) not in known:
                    known.add((rest_[0][0], not rest_[0][1]))
                    conds[k_] = [rest_]
                    continue
                if all((t_[0], not t_[1]) not in known for t_ in rest_):
                    conds[k_] = [rest_]
        out = None
        arms = list(zip(x["arms"], conds))
        last = arms[-1][0]["body"]
        out = last if last.get("k") == "blk" else {"k": "blk", "b": {"k": "block", "stmts": [], "tail": last} if not _is_unit_stmt(last) else {"k": "block", "stmts": [last], "tail": None}, "line": last.get("line")}
        if _is_unit(out):
            out = None
        for a, cs in reversed(arms[:-1]):
            c_ = build(cs)
            body = a["body"]
            th = body if body.get("k") == "blk" else {"k": "blk", "b": {"k": "block", "stmts": [], "tail": body} if not _is_unit_stmt(body) else {"k": "block", "stmts": [body], "tail": None}, "line": body.get("line")}
            if c_ is None:
                out = th
                continue
            out = {"k": "if", "c": c_, "th": th, "el": out, "line": a.get("line", line), "from_bool_match": True}
        if out is None:
            return x
        for key in ("t", "ta"):
            if key in x:
                out[key] = x[key]
        n += 1
        return out
    if fn.get("body") is not None:
        fn["body"] = rewrite(fn["body"])
    return n


def _is_unit_stmt(n):
    return n.get("k") in ("assign", "assignop")


def _pure_elem(n):
    """`v[i]` / `v[i][j]` with v a local (or field place) and side-effect free indices, or any other side-effect free place"""
    n = _unblk(n)
    if n is None:
        return False
    if n.get("k") == "index":
        return _pure_elem(n["b"]) and _pure_expr(n["i"])
    return _pure_place(n)


def mem_replace(fn):
    """D26a  `let p = std::mem::replace(&mut X, v);`  ->  `let p = X; X = v;`      (X a side-effect free place, v a local / literal)
             `std::mem::swap(&mut X, &mut Y);`         ->  `let t = X; X = Y; Y = t;`
    (the definitions of replace / swap in terms of reads and writes of the two places)."""
    n = 0
    for b in list(_walk(fn.get("body"))):
        if b.get("k") != "block":
            continue
        out = []
        for st in b["stmts"]:
            init = _unblk(st.get("init")) if st.get("k") == "let" else None
            if (init is not None and init.get("k") == "call" and init.get("callee") in ("std::mem::replace", "core::mem::replace") and len(init["args"]) == 2
                    and st["pat"].get("k") in ("bind", "wild") and not st.get("els")):
                a0, a1 = _unblk(init["args"][0]), _unblk(init["args"][1])
                if a0 is not None and a0.get("k") == "ref" and a0.get("mut") and _pure_elem(a0["x"]) and a1 is not None and a1.get("k") in ("local", "lit"):
                    line = st.get("line")
                    if st["pat"].get("k") == "bind":
                        out.append({**st, "init": copy.deepcopy(a0["x"])})
                    out.append({"k": "assign", "l": a0["x"], "r": init["args"][1], "line": line, "from_mem": "replace"})
                    n += 1
                    continue
            c0 = _unblk(st)
            if (c0 is not None and c0.get("k") == "call" and c0.get("callee") in ("std::mem::swap", "core::mem::swap") and len(c0["args"]) == 2):
                a0, a1 = _unblk(c0["args"][0]), _unblk(c0["args"][1])
                if all(a is not None and a.get("k") == "ref" and a.get("mut") and _pure_elem(a["x"]) for a in (a0, a1)):
                    _UW[0] += 1
                    vh = 9700000 + _UW[0]
                    nm = "_sw%d" % _UW[0]
                    line = c0.get("line")
                    t_ = _unblk(a0["x"]).get("t")
                    out.append({"k": "let", "pat": {"k": "bind", "name": nm, "hid": vh, "mode": "BindingMode(No, Not)", "t": t_}, "init": copy.deepcopy(a0["x"]), "els": None, "line": line})
                    out.append({"k": "assign", "l": a0["x"], "r": copy.deepcopy(a1["x"]), "line": line, "from_mem": "swap"})
                    out.append({"k": "assign", "l": a1["x"], "r": {"k": "local", "name": nm, "hid": vh, "t": t_, "line": line}, "line": line, "from_mem": "swap"})
                    n += 1
                    continue
            out.append(st)
        b["stmts"] = out
    return n


def swap_sequences(fn):
    """D26b  a run of statements that only moves the values of two elements `v[i]`, `v[j]` of one local vector through immutable temporaries and
    ends with the two exchanged (`let t = v[i]; v[i] = v[j]; v[j] = t;` and its variants)  ->  `v.swap(i, j);`
    Decided by executing the run on two symbolic cells (and on one cell for i == j, where it must change nothing); the temporaries must not be
    used afterwards."""
    n = 0

    def elem(x):
        x = _unblk(x)
        if x is not None and x.get("k") == "index" and _unblk(x["b"]) is not None and _unblk(x["b"]).get("k") in ("local",) and _pure_expr(x["i"]):
            return _unblk(x["b"])["hid"], x["i"], _unblk(x["b"])
        if x is not None and x.get("k") == "index" and _unblk(x["b"]) is not None and _unblk(x["b"]).get("k") == "un" and _unblk(_unblk(x["b"])["x"]).get("k") == "local" and _pure_expr(x["i"]):
            return _unblk(_unblk(x["b"])["x"])["hid"], x["i"], _unblk(x["b"])
        return None

    for b in list(_walk(fn.get("body"))):
        if b.get("k") != "block":
            continue
        i = 0
        while i < len(b["stmts"]):
            done = False
            for L in (3, 4):
                run = b["stmts"][i:i + L]
                if len(run) != L:
                    continue
                vec = None
                idxs = []
                temps = {}
                ok = True
                prog = []
                for st in run:
                    s0 = _unblk(st)
                    if s0 is None:
                        ok = False
                        break
                    if s0.get("k") == "let" and s0["pat"].get("k") == "bind" and not s0.get("els") and str(s0["pat"].get("mode")).endswith("No, Not)") and s0.get("init") is not None:
                        e = elem(s0["init"])
                        src = None
                        if e is not None:
                            src = ("cell", e)
                        elif _unblk(s0["init"]).get("k") == "local" and _unblk(s0["init"])["hid"] in temps:
                            src = ("tmp", _unblk(s0["init"])["hid"])
                        if src is None:
                            ok = False
                            break
                        temps[s0["pat"]["hid"]] = True
                        prog.append(("let", s0["pat"]["hid"], src))
                    elif s0.get("k") == "assign":
                        e = elem(s0["l"])
                        r = _unblk(s0["r"])
                        if e is None or r is None:
                            ok = False
                            break
                        if r.get("k") == "local" and r["hid"] in temps:
                            src = ("tmp", r["hid"])
                        elif elem(r) is not None:
                            src = ("cell", elem(r))
                        else:
                            ok = False
                            break
                        prog.append(("set", e, src))
                    else:
                        ok = False
                        break
                if not ok:
                    continue
                cells = []
                for op in prog:
                    for item in ((op[1],) if op[0] == "set" else ()) + ((op[2][1],) if op[2][0] == "cell" else ()):
                        if vec is None:
                            vec = item[0]
                        if item[0] != vec:
                            ok = False
                        if not any(_eq_expr(_unblk(item[1]), _unblk(c_)) for c_ in cells):
                            cells.append(item[1])
                if not ok or len(cells) != 2 or vec is None:
                    continue
                # the index expressions must not depend on the temporaries
                if any(y.get("k") == "local" and y.get("hid") in temps for c_ in cells for y in _walk(c_)):
                    continue

                def cid(e):
                    return 0 if _eq_expr(_unblk(e[1]), _unblk(cells[0])) else 1

                def execute(merge):
                    st_ = {0: "a", 1: "b"} if not merge else {0: "a", 1: "a"}
                    env = {}
                    for op in prog:
                        val = st_[0 if merge else cid(op[2][1])] if op[2][0] == "cell" else env[op[2][1]]
                        if op[0] == "let":
                            env[op[1]] = val
                        else:
                            if merge:
                                st_[0] = st_[1] = val
                            else:
                                st_[cid(op[1])] = val
                    return st_
                if execute(False) != {0: "b", 1: "a"} or execute(True) != {0: "a", 1: "a"}:
                    continue
                later = b["stmts"][i + L:] + ([b["tail"]] if b.get("tail") is not None else [])
                if any(_mentions(x, h) for x in later for h in temps):
                    continue
                recv = None
                for op in prog:
                    if op[0] == "set":
                        recv = op[1][2]
                line = run[0].get("line")
                sw = {"k": "mcall", "name": "swap", "callee": "core::slice::<impl [T]>::swap", "recv": copy.deepcopy(recv), "args": [copy.deepcopy(cells[0]), copy.deepcopy(cells[1])],
                      "line": line, "from_swap_sequence": True}
                b["stmts"][i:i + L] = [sw]
                n += 1
                done = True
                break
            i += 1
    return n


def inclusive_ranges(fn):
    """D27  `a..=b`  ->  `a..b + 1`   (the same positions in the same order; `b + 1` cannot overflow for an index that is in range);
            `X[..]`  ->  `X`          (the full-range slice of a vector / slice is the same sequence)"""
    n = 0
    for x in _walk(fn.get("body")):
        if x.get("k") == "index" and isinstance(x.get("i"), dict) and _unblk(x["i"]) is not None and _unblk(x["i"]).get("k") == "struct" \
                and str(_unblk(x["i"]).get("path", "")).endswith("RangeFull") and isinstance(x.get("b"), dict):
            b = x["b"]
            keep = {k_: x[k_] for k_ in ("line",) if k_ in x}
            x.clear()
            x.update(b)
            x.update(keep)
            n += 1
    for x in _walk(fn.get("body")):
        if x.get("k") == "call" and str(x.get("callee", "")).endswith("RangeInclusive::<Idx>::new") and len(x.get("args") or []) == 2:
            a, b = x["args"]
            line = x.get("line")
            b0 = _unblk(b)
            if b0 is not None and b0.get("k") == "bin" and b0.get("op") == "Sub" and _unblk(b0["r"]).get("k") == "lit" and str(_unblk(b0["r"]).get("v")).replace("usize", "").rstrip("_") == "1":
                end = b0["l"]             # `a..=n - 1`  ->  `a..n`
            else:
                end = {"k": "bin", "op": "Add", "l": b, "r": {"k": "lit", "v": "1", "line": line, "t": b.get("t")}, "line": line, "t": b.get("t")}
            keep = {k_: x[k_] for k_ in ("id", "line") if k_ in x}
            x.clear()
            x.update({"k": "struct", "path": "std::ops::Range", "mac": "Desugaring(RangeExpr)", "fs": [["start", a], ["end", end]], **keep})
            n += 1
    return n


def while_let_next(fn):
    """D29  `let mut it = ITER; while let Some(P) = it.next() { body }`  ->  `for P in ITER { body }`      (it used nowhere else)
       D30  `let mut c = 0; for P in ITER { body; c += 1; }`             ->  `for (c, P) in ITER.enumerate() { body }`
            (c assigned nowhere else, no `continue` of this loop in the body, c dead after the loop)."""
    n = 0
    for blkn in list(_walk(fn.get("body"))):
        if blkn.get("k") != "block":
            continue
        changed = True
        while changed:
            changed = False
            stmts = blkn["stmts"]
            items = list(stmts) + ([blkn["tail"]] if blkn.get("tail") is not None else [])
            for b, lp0 in enumerate(items):
                lp = _unblk(lp0)
                if lp is None:
                    continue
                if lp.get("k") == "loop":
                    bd = lp["body"]
                    bd = bd["b"] if bd.get("k") == "blk" else bd
                    if bd.get("k") != "block" or bd["stmts"] or bd.get("tail") is None or bd["tail"].get("k") != "if":
                        continue
                    iff = bd["tail"]
                    c = _unblk(iff["c"])
                    if c is None or c.get("k") != "letx":
                        continue
                    pat = c["pat"]
                    while pat.get("k") in ("ref", "deref"):
                        pat = pat["p"]
                    init = _unblk(c["init"])
                    if not (pat.get("k") == "tstruct" and pat["path"].endswith("::Some") and len(pat["ps"]) == 1 and init is not None and init.get("k") == "mcall"
                            and init["name"] == "next" and not init["args"] and _unblk(init["recv"]) is not None and _unblk(init["recv"]).get("k") in ("local", "ref")):
                        continue
                    r0 = _unblk(init["recv"])
                    while r0 is not None and r0.get("k") == "ref":
                        r0 = _unblk(r0["x"])
                    if r0 is None or r0.get("k") != "local":
                        continue
                    ih = r0["hid"]
                    el = iff.get("el")
                    e0 = el
                    while e0 is not None and e0.get("k") == "blk" and len(e0["b"]["stmts"]) + (1 if e0["b"].get("tail") is not None else 0) == 1:
                        e0 = e0["b"]["stmts"][0] if e0["b"]["stmts"] else e0["b"]["tail"]
                    if e0 is None or e0.get("k") != "break" or e0.get("v") is not None:
                        continue
                    if _mentions(iff["th"], ih):
                        continue
                    a = None
                    for j in range(b - 1, -1, -1):
                        s_ = items[j]
                        if s_.get("k") == "let" and s_["pat"].get("k") == "bind" and s_["pat"]["hid"] == ih and s_.get("init") is not None and not s_.get("els"):
                            a = j
                            break
                        if _mentions(s_, ih):
                            break
                    if a is None or any(_mentions(s_, ih) for s_ in items[b + 1:]):
                        continue
                    # what lies between the declaration and the loop must not touch what the iterator borrows: only plain lets of literals are accepted
                    if any(not (s_.get("k") == "let" and _unblk(s_.get("init")) is not None and _unblk(s_["init"]).get("k") == "lit") for s_ in items[a + 1:b]):
                        continue
                    newlp = {"k": "for", "pat": pat["ps"][0], "iter": items[a]["init"], "body": iff["th"], "loop_id": lp.get("loop_id"), "line": lp.get("line"), "from_while_let": True}
                    if "id" in lp:
                        newlp["id"] = lp["id"]
                    if b < len(stmts):
                        stmts[b] = newlp
                    else:
                        blkn["tail"] = None
                        stmts.append(newlp)
                    del stmts[a]
                    n += 1
                    changed = True
                    break
                if lp.get("k") == "for" and not lp.get("counter_done"):
                    body = lp["body"]
                    bb = body["b"] if body.get("k") == "blk" else None
                    if bb is None or bb.get("tail") is not None and False:
                        continue
                    its = list(bb["stmts"]) + ([bb["tail"]] if bb.get("tail") is not None else [])
                    if not its:
                        continue
                    last = _unblk(its[-1])
                    if not (last is not None and last.get("k") == "assignop" and str(last.get("op", "")).startswith("Add") and _unblk(last["l"]).get("k") == "local"
                            and _unblk(last["r"]).get("k") == "lit" and str(_unblk(last["r"]).get("v")).replace("usize", "").rstrip("_") == "1"):
                        continue
                    ch = _unblk(last["l"])["hid"]
                    rest = its[:-1]
                    if any(y.get("k") in ("assign", "assignop") and _unblk(y["l"]) is not None and _unblk(y["l"]).get("k") == "local" and _unblk(y["l"])["hid"] == ch for x in rest for y in _walk(x)):
                        continue
                    lid = lp.get("loop_id")
                    if any(y.get("k") == "continue" and y.get("label") in (lid, None) for x in rest for y in _walk(x)):
                        continue
                    if any(y.get("k") == "ref" and y.get("mut") and _unblk(y["x"]) is not None and _unblk(y["x"]).get("k") == "local" and _unblk(y["x"])["hid"] == ch
                           for x in rest for y in _walk(x)):
                        continue
                    a = None
                    for j in range(b - 1, -1, -1):
                        s_ = items[j]
                        if s_.get("k") == "let" and s_["pat"].get("k") == "bind" and s_["pat"]["hid"] == ch and s_.get("init") is not None and not s_.get("els"):
                            a = j
                            break
                        if _mentions(s_, ch):
                            break
                    if a is None or any(_mentions(s_, ch) for s_ in items[b + 1:]) or _mentions(lp["iter"], ch):
                        continue
                    i0 = _unblk(items[a]["init"])
                    if i0.get("k") != "lit" or str(i0.get("v")).replace("usize", "").rstrip("_") != "0":
                        continue
                    line = lp.get("line")
                    cpat = dict(items[a]["pat"])
                    cpat["mode"] = "BindingMode(No, Not)"
                    lp["pat"] = {"k": "tuple", "ps": [cpat, lp["pat"]]}
                    lp["iter"] = {"k": "mcall", "name": "enumerate", "callee": "std::iter::Iterator::enumerate", "recv": lp["iter"], "args": [], "line": line}
                    bb["stmts"] = rest
                    bb["tail"] = None
                    lp["counter_done"] = True
                    del stmts[a]
                    n += 1
                    changed = True
                    break
    return n


_FOLD = [0]


def tuple_folds(fn):
    """D31  `let (p0, p1, ..) = ITER.fold((e0, e1, ..), |(a0, a1, ..), X| { body; (r0, r1, ..) });`  ->
                let mut a0 = e0; let mut a1 = e1; ..; for X in ITER { body; a0 = r0; a1 = r1; .. }; let (p0, p1, ..) = (a0, a1, ..);
    when every r_i is a_i itself (then nothing is assigned) or mentions no other accumulator component, and every `return (s0, s1, ..)` inside
    the closure is likewise a tuple (it becomes the assignments followed by `continue`).  The fold's definition, with the tuple kept in its
    components."""
    n = 0
    for blkn in list(_walk(fn.get("body"))):
        if blkn.get("k") != "block":
            continue
        out = []
        for st in blkn["stmts"]:
            done = False
            init = _unblk(st.get("init")) if st.get("k") == "let" and not st.get("els") else None
            if init is not None and init.get("k") == "mcall" and init.get("name") == "fold" and len(init.get("args") or []) == 2:
                seed, cl = _unblk(init["args"][0]), _unblk(init["args"][1])
                if (seed is not None and seed.get("k") == "tup" and len(seed["xs"]) >= 2 and cl is not None and cl.get("k") == "closure" and len(cl.get("params") or []) == 2):
                    ap = cl["params"][0]
                    while ap.get("k") in ("ref", "deref"):
                        ap = ap["p"]
                    if ap.get("k") == "tuple" and len(ap["ps"]) == len(seed["xs"]) and all(q.get("k") == "bind" and not q.get("sub") for q in ap["ps"]):
                        accs = [q["hid"] for q in ap["ps"]]
                        body = cl["body"]
                        bb = body["b"] if body.get("k") == "blk" and body.get("lbl") is None else {"k": "block", "stmts": [], "tail": body}
                        tail = _unblk(bb.get("tail"))
                        _FOLD[0] += 1
                        lid = 9800000 + _FOLD[0]
                        line = st.get("line")

                        def assigns(tup):
                            """tuple literal of new component values -> assignment statements, or None"""
                            if tup is None or tup.get("k") != "tup" or len(tup["xs"]) != len(accs):
                                return None
                            res = []
                            for i_, r in enumerate(tup["xs"]):
                                r0 = _unblk(r)
                                if r0 is not None and r0.get("k") == "local" and r0["hid"] == accs[i_]:
                                    continue
                                if any(y.get("k") == "local" and y.get("hid") in accs and y["hid"] != accs[i_] for y in _walk(r)):
                                    return None
                                q = ap["ps"][i_]
                                res.append({"k": "assign", "l": {"k": "local", "name": q["name"], "hid": q["hid"], "t": q.get("t"), "line": line}, "r": r, "line": r.get("line", line)})
                            return res
                        ok = True

                        def leaves(e):
                            """the value expression `e` of the closure with every leaf tuple turned into its assignments -> statement list, or None"""
                            e0 = _unblk(e)
                            if e0 is None:
                                return None
                            if e0.get("k") == "tup":
                                return assigns(e0)
                            if e0.get("k") == "if" and e0.get("el") is not None:
                                a_, b_ = leaves(e0["th"]), leaves(e0["el"])
                                if a_ is None or b_ is None:
                                    return None
                                mkb = lambda ss: {"k": "blk", "b": {"k": "block", "stmts": ss, "tail": None}, "line": e0.get("line")}
                                return [{"k": "if", "c": e0["c"], "th": mkb(a_), "el": mkb(b_) if b_ else None, "line": e0.get("line")}]
                            if e0.get("k") == "match":
                                arms_ = []
                                for a in e0["arms"]:
                                    l_ = leaves(a["body"])
                                    if l_ is None:
                                        return None
                                    arms_.append({**a, "body": {"k": "blk", "b": {"k": "block", "stmts": l_, "tail": None}, "line": e0.get("line")}})
                                return [{**e0, "arms": arms_}]
                            if e0.get("k") == "blk" and e0.get("lbl") is None and e0["b"].get("tail") is not None:
                                l_ = leaves(e0["b"]["tail"])
                                return None if l_ is None else list(e0["b"]["stmts"]) + l_
                            return None
                        fin = leaves(bb.get("tail")) if bb.get("tail") is not None else None
                        if fin is None:
                            ok = False
                        stmts2 = copy.deepcopy(bb["stmts"]) if ok else []

                        def fix(x):
                            nonlocal ok
                            if isinstance(x, list):
                                return [fix(v) for v in x]
                            if not isinstance(x, dict):
                                return x
                            if x.get("k") == "closure":
                                return x
                            if x.get("k") == "ret":
                                a_ = assigns(_unblk(x.get("v")))
                                if a_ is None:
                                    ok = False
                                    return x
                                return {"k": "blk", "b": {"k": "block", "stmts": a_ + [{"k": "continue", "label": lid, "line": x.get("line")}], "tail": None}, "line": x.get("line")}
                            for k_, v in list(x.items()):
                                if isinstance(v, (dict, list)):
                                    x[k_] = fix(v)
                            return x
                        if ok:
                            stmts2 = fix(stmts2)
                        if ok:
                            for q, e0 in zip(ap["ps"], seed["xs"]):
                                out.append({"k": "let", "pat": {**q, "mode": "BindingMode(No, Mut)"}, "init": e0, "els": None, "line": line})
                            lp = {"k": "for", "pat": cl["params"][1], "iter": init["recv"], "loop_id": lid, "line": line, "from_fold": True,
                                  "body": {"k": "blk", "b": {"k": "block", "stmts": stmts2 + copy.deepcopy(fin), "tail": None}, "line": line}}
                            out.append(lp)
                            vals = {"k": "tup", "xs": [{"k": "local", "name": q["name"], "hid": q["hid"], "t": q.get("t"), "line": line} for q in ap["ps"]], "line": line}
                            out.append({**st, "init": vals})
                            n += 1
                            done = True
            if not done:
                out.append(st)
        blkn["stmts"] = out
    return n


def reduce_to_max_by(fn):
    """D32  `ITER.reduce(|p, q| { lets..; match CMP { Greater => p, Less | Equal => q } })`  ->  `ITER.max_by(|p, q| { lets..; CMP })`
    (and `Less => p, _ => q` -> min_by): the definitions of Iterator::max_by / min_by (std: `reduce(|x, y| match compare(&x, &y) { Greater => x, _ => y })`)."""
    n = 0
    for x in _walk(fn.get("body")):
        if x.get("k") != "mcall" or x.get("name") != "reduce" or len(x.get("args") or []) != 1:
            continue
        cl = _unblk(x["args"][0])
        if cl is None or cl.get("k") != "closure" or len(cl.get("params") or []) != 2:
            continue
        ps = []
        for p_ in cl["params"]:
            q = p_
            while q.get("k") in ("ref", "deref"):
                q = q["p"]
            ps.append(q if q.get("k") == "bind" and not q.get("sub") else None)
        if None in ps:
            continue
        body = cl["body"]
        bb = body["b"] if body.get("k") == "blk" and body.get("lbl") is None else None
        m = _unblk(bb["tail"]) if bb is not None and bb.get("tail") is not None else _unblk(body)
        if m is None or m.get("k") != "match" or any(a.get("guard") is not None for a in m["arms"]):
            continue
        if bb is not None and not all(s_.get("k") == "let" for s_ in bb["stmts"]):
            continue
        keep = {"Greater": None, "Less": None, "Equal": None}
        ok = True
        for a in m["arms"]:
            b0 = _unblk(a["body"])
            who = 0 if (b0 is not None and b0.get("k") == "local" and b0["hid"] == ps[0]["hid"]) else (1 if (b0 is not None and b0.get("k") == "local" and b0["hid"] == ps[1]["hid"]) else None)
            if who is None:
                ok = False
                break
            pats = a["pat"]["ps"] if a["pat"].get("k") == "or" else [a["pat"]]
            for q in pats:
                if q.get("k") == "wild":
                    for k_ in keep:
                        if keep[k_] is None:
                            keep[k_] = who
                elif q.get("k") == "ppath" and q["path"].rsplit("::", 1)[-1] in keep:
                    k_ = q["path"].rsplit("::", 1)[-1]
                    if keep[k_] is None:
                        keep[k_] = who
                else:
                    ok = False
        if not ok or None in keep.values():
            continue
        if keep == {"Greater": 0, "Less": 1, "Equal": 1}:
            name = "max_by"
        elif keep == {"Less": 0, "Greater": 1, "Equal": 1}:
            name = "min_by"        # std: min_by keeps the first of equal minima: `Greater => y, _ => x`
            continue
        else:
            continue
        scr = m["scrut"]
        if bb is not None:
            bb["tail"] = scr
        else:
            cl["body"] = scr
        x["name"] = name
        x["callee"] = "std::iter::Iterator::" + name
        x["from_reduce"] = True
        n += 1
    return n


def partial_cmp_match(fn):
    """D33  `match a.partial_cmp(b) { Some(Greater) => X, _ => Y }`  ->  `if a > b { X } else { Y }`   (Less: `<`, Equal: `==`);
    an incomparable pair (NaN) yields None and takes the `_` arm, exactly as the comparison is false."""
    n = 0
    OPS = {"Greater": "Gt", "Less": "Lt", "Equal": "Eq"}

    def rewrite(x):
        nonlocal n
        if isinstance(x, list):
            return [rewrite(v) for v in x]
        if not isinstance(x, dict):
            return x
        for k_, v in list(x.items()):
            if isinstance(v, (dict, list)):
                x[k_] = rewrite(v)
        if x.get("k") != "match" or len(x["arms"]) != 2 or any(a.get("guard") is not None for a in x["arms"]):
            return x
        scr = _unblk(x["scrut"])
        if scr is None or scr.get("k") != "mcall" or scr.get("name") not in ("partial_cmp", "cmp") or len(scr["args"]) != 1:
            return x
        p0 = x["arms"][0]["pat"]
        while p0.get("k") in ("ref", "deref"):
            p0 = p0["p"]
        p1 = x["arms"][1]["pat"]
        if scr["name"] == "cmp":
            # `match a.cmp(b) { Equal => X, Less | Greater => Y }` (total order: the second arm is everything else)
            others = {"Greater", "Less", "Equal"}
            if not (p0.get("k") == "ppath" and p0["path"].rsplit("::", 1)[-1] in OPS):
                return x
            others.discard(p0["path"].rsplit("::", 1)[-1])
            alts = p1["ps"] if p1.get("k") == "or" else [p1]
            if not (p1.get("k") == "wild" or (all(q.get("k") == "ppath" for q in alts) and {q["path"].rsplit("::", 1)[-1] for q in alts} == others)):
                return x
            p0 = {"k": "tstruct", "path": "std::prelude::v1::Some", "ps": [p0]}
            p1 = {"k": "wild"}
        if not (p0.get("k") == "tstruct" and p0["path"].endswith("::Some") and len(p0["ps"]) == 1 and p0["ps"][0].get("k") == "ppath"
                and p0["ps"][0]["path"].rsplit("::", 1)[-1] in OPS and p1.get("k") == "wild"):
            return x
        rhs = _unblk(scr["args"][0])
        while rhs is not None and rhs.get("k") == "ref":
            rhs = _unblk(rhs["x"])
        lhs = _unblk(scr["recv"])
        while lhs is not None and lhs.get("k") == "ref":
            lhs = _unblk(lhs["x"])
        if lhs is None or rhs is None or not _pure_expr(lhs) or not _pure_expr(rhs):
            return x
        line = x.get("line")
        blk = lambda e: e if e.get("k") == "blk" else {"k": "blk", "b": {"k": "block", "stmts": [], "tail": e}, "line": e.get("line"), **({"t": e["t"]} if "t" in e else {})}
        out = {"k": "if", "c": {"k": "bin", "op": OPS[p0["ps"][0]["path"].rsplit("::", 1)[-1]], "l": lhs, "r": rhs, "line": line},
               "th": blk(x["arms"][0]["body"]), "el": blk(x["arms"][1]["body"]), "line": line, "from_partial_cmp": True}
        for key in ("t", "ta"):
            if key in x:
                out[key] = x[key]
        n += 1
        return out
    if fn.get("body") is not None:
        fn["body"] = rewrite(fn["body"])
    return n


def eta_reduce(fn):
    """D34  `|a, b| a.max(b)` (also with `&` patterns / derefs) as the argument of `fold`  ->  the function item `f32::max`
    (a closure that only forwards its parameters, in order, to an inherent float method is that method)."""
    n = 0
    for x in _walk(fn.get("body")):
        if x.get("k") != "mcall" or x.get("name") != "fold" or len(x.get("args") or []) != 2:
            continue
        cl = _unblk(x["args"][1])
        if cl is None or cl.get("k") != "closure" or len(cl.get("params") or []) != 2:
            continue
        hs = []
        for p_ in cl["params"]:
            q = p_
            while q.get("k") in ("ref", "deref"):
                q = q["p"]
            hs.append(q["hid"] if q.get("k") == "bind" and not q.get("sub") else None)
        if None in hs:
            continue
        b = _unblk(cl["body"])
        if b is None or b.get("k") != "mcall" or len(b.get("args") or []) != 1 or not any(m_ in str(b.get("callee", "")) for m_ in ("<impl f32>::", "<impl f64>::")):
            continue

        def base(e):
            e = _unblk(e)
            while e is not None and (e.get("k") == "ref" or (e.get("k") == "un" and e.get("op") == "Deref")):
                e = _unblk(e["x"])
            return e
        r, a = base(b["recv"]), base(b["args"][0])
        if r is None or a is None or r.get("k") != "local" or a.get("k") != "local" or [r["hid"], a["hid"]] != hs:
            continue
        x["args"][1] = {"k": "path", "def": b["callee"], "line": cl.get("line"), "from_eta": True}
        n += 1
    return n


_SP = [0]


def struct_subpatterns(fn):
    """D35  a match arm `Variant(Struct { f, g, .. }) => body` binding fields of the payload (by reference, under the default binding modes)
            ->  `Variant(whole) => body` with `*f` read as `whole.f` and a bare `f` as `&mut whole.f`: the bindings are the payload's fields."""
    n = 0
    for m in list(_walk(fn.get("body"))):
        if m.get("k") != "match":
            continue
        for a in m["arms"]:
            p0 = a["pat"]
            while p0.get("k") in ("ref", "deref"):
                p0 = p0["p"]
            if p0.get("k") != "tstruct" or len(p0.get("ps") or []) != 1:
                continue
            sp = p0["ps"][0]
            holder, key = p0["ps"], 0
            while sp.get("k") in ("ref", "deref"):
                holder, key = sp, "p"
                sp = sp["p"]
            if sp.get("k") != "struct" or not sp.get("fs") or not all(q.get("k") in ("bind", "wild") and not q.get("sub") for _, q in sp["fs"]):
                continue
            binds = {q["hid"]: (f_, q) for f_, q in sp["fs"] if q.get("k") == "bind"}
            if not binds or any(str(q.get("mode", "")).startswith("BindingMode(Ref") for _, q in binds.values()):
                continue
            # a field binding that is itself re-assigned as a whole (`f = other_ref`) would not be a field access: leave such arms alone
            if any(y.get("k") in ("assign", "assignop") and _unblk(y["l"]) is not None and _unblk(y["l"]).get("k") == "local" and _unblk(y["l"])["hid"] in binds for y in _walk(a["body"])):
                continue
            _SP[0] += 1
            wh = 9900000 + _SP[0]
            wname = "_payload%d" % _SP[0]
            line = a.get("line") or m.get("line")
            whole = lambda: {"k": "local", "name": wname, "hid": wh, "line": line}

            def subst(x):
                if isinstance(x, list):
                    return [subst(v) for v in x]
                if not isinstance(x, dict):
                    return x
                if x.get("k") == "un" and x.get("op") == "Deref":
                    i0 = _unblk(x["x"])
                    if i0 is not None and i0.get("k") == "local" and i0.get("hid") in binds:
                        r = {"k": "field", "b": whole(), "f": binds[i0["hid"]][0], "line": x.get("line")}
                        if "t" in x:
                            r["t"] = x["t"]
                        return r
                if x.get("k") == "local" and x.get("hid") in binds:
                    return {"k": "ref", "mut": True, "x": {"k": "field", "b": whole(), "f": binds[x["hid"]][0], "line": x.get("line")}, "line": x.get("line"), "t": x.get("t")}
                for k_, v in list(x.items()):
                    if isinstance(v, (dict, list)):
                        x[k_] = subst(v)
                return x
            a["body"] = subst(a["body"])
            if a.get("guard") is not None:
                a["guard"] = subst(a["guard"])
            holder[key] = {"k": "bind", "name": wname, "hid": wh, "mode": "BindingMode(No, Not)", "t": None}
            n += 1
    return n


def scalar_folds(fn):
    """D36  `let P = ITER.fold(init, |acc, X| body);`   ->  `let mut acc = init; for X in ITER { acc = body; } let P = acc;`
            `PLACE = ITER.fold(init, |acc, X| body);`   ->  `let mut acc = init; for X in ITER { acc = body; } PLACE = acc;`
       (acc a plain binding; a `return v` in the closure is `{ acc = v; continue }`); the definition of fold.
       D37  `for (m, n) in (a..b).flat_map(|m| (c..d).map(move |n| (m, n))) { body }`  ->  `for m in a..b { for n in c..d { body } }`
       D38  `x = if c { e } else { x };`  ->  `if c { x = e; }`      (and the mirrored form)."""
    n = 0
    for blkn in list(_walk(fn.get("body"))):
        if blkn.get("k") != "block":
            continue
        out = []
        for st in blkn["stmts"]:
            src = None
            if st.get("k") == "let" and not st.get("els") and st.get("init") is not None:
                src = _unblk(st["init"])
                kind = "let"
            elif st.get("k") == "assign" and _pure_access(st["l"]):
                src = _unblk(st["r"])
                kind = "assign"
            done = False
            if src is not None and src.get("k") == "mcall" and src.get("name") == "fold" and len(src.get("args") or []) == 2:
                cl = _unblk(src["args"][1])
                seed = src["args"][0]
                if cl is not None and cl.get("k") == "closure" and len(cl.get("params") or []) == 2:
                    ap = cl["params"][0]
                    while ap.get("k") in ("ref", "deref"):
                        ap = ap["p"]
                    s0 = _unblk(seed)
                    if ap.get("k") == "bind" and not ap.get("sub") and s0 is not None and s0.get("k") != "tup" and (kind == "let" or not _mentions(st["l"], ap["hid"])):
                        _FOLD[0] += 1
                        lid = 9800000 + _FOLD[0]
                        line = st.get("line")
                        acc = lambda: {"k": "local", "name": ap["name"], "hid": ap["hid"], "t": ap.get("t"), "line": line}
                        body = copy.deepcopy(cl["body"])

                        def fix(x):
                            if isinstance(x, list):
                                return [fix(v) for v in x]
                            if not isinstance(x, dict):
                                return x
                            if x.get("k") == "closure":
                                return x
                            if x.get("k") == "ret":
                                asg = {"k": "assign", "l": acc(), "r": x.get("v"), "line": x.get("line")}
                                return {"k": "blk", "b": {"k": "block", "stmts": [asg, {"k": "continue", "label": lid, "line": x.get("line")}], "tail": None}, "line": x.get("line")}
                            for k_, v in list(x.items()):
                                if isinstance(v, (dict, list)):
                                    x[k_] = fix(v)
                            return x
                        body = fix(body)
                        out.append({"k": "let", "pat": {**ap, "mode": "BindingMode(No, Mut)"}, "init": seed, "els": None, "line": line})
                        out.append({"k": "for", "pat": cl["params"][1], "iter": src["recv"], "loop_id": lid, "line": line, "from_fold": True,
                                    "body": {"k": "blk", "b": {"k": "block", "stmts": [{"k": "assign", "l": acc(), "r": body, "line": line}], "tail": None}, "line": line}})
                        if kind == "let":
                            out.append({**st, "init": acc()})
                        else:
                            out.append({**st, "r": acc()})
                        n += 1
                        done = True
            if not done:
                out.append(st)
        blkn["stmts"] = out
    # `for P in ITER.filter(|Q| c) { body }`  ->  `for P in ITER { if !c[Q := P] { continue }; body }`   (Q, P patterns of plain bindings in the same positions)
    for lp in list(_walk(fn.get("body"))):
        if lp.get("k") != "for":
            continue
        it = _unblk(lp["iter"])
        if it is None or it.get("k") != "mcall" or it.get("name") != "filter" or len(it.get("args") or []) != 1:
            continue
        clf = _unblk(it["args"][0])
        if clf is None or clf.get("k") != "closure" or len(clf.get("params") or []) != 1 or any(y.get("k") == "ret" for y in _walk(clf["body"])):
            continue

        def binds_in_order(p_):
            out_ = []
            while p_ is not None and p_.get("k") in ("ref", "deref"):
                p_ = p_["p"]
            if p_ is None:
                return None
            if p_.get("k") == "bind" and not p_.get("sub"):
                return [p_]
            if p_.get("k") == "wild":
                return [None]
            if p_.get("k") == "tuple":
                for z in p_["ps"]:
                    r_ = binds_in_order(z)
                    if r_ is None:
                        return None
                    out_ += r_
                return out_
            return None
        qb, pb = binds_in_order(clf["params"][0]), binds_in_order(lp["pat"])
        if qb is None or pb is None or len(qb) != len(pb) or any(q_ is not None and p_ is None for q_, p_ in zip(qb, pb)):
            continue
        ren = {q_["hid"]: p_ for q_, p_ in zip(qb, pb) if q_ is not None}
        cond = copy.deepcopy(clf["body"])
        for y in _walk(cond):
            if y.get("k") == "local" and y.get("hid") in ren:
                y["name"], y["hid"] = ren[y["hid"]]["name"], ren[y["hid"]]["hid"]
        # derefs of the renamed (now by-value) bindings disappear with the `&` of the filter's parameter
        line = lp.get("line")
        guard = {"k": "if", "c": {"k": "un", "op": "Not", "x": cond, "line": line},
                 "th": {"k": "blk", "b": {"k": "block", "stmts": [{"k": "continue", "label": lp.get("loop_id"), "line": line}], "tail": None}, "line": line}, "el": None, "line": line, "from_filter": True}
        bd = lp["body"]
        if bd.get("k") == "blk" and bd.get("lbl") is None:
            bd["b"]["stmts"] = [guard] + list(bd["b"]["stmts"])
        else:
            lp["body"] = {"k": "blk", "b": {"k": "block", "stmts": [guard, bd], "tail": None}, "line": line}
        lp["iter"] = it["recv"]
        n += 1
    # D37
    for lp in list(_walk(fn.get("body"))):
        if lp.get("k") != "for":
            continue
        it = _unblk(lp["iter"])
        if it is None or it.get("k") != "mcall" or it.get("name") != "flat_map" or len(it.get("args") or []) != 1:
            continue
        o_rng = _unblk(it["recv"])
        cl = _unblk(it["args"][0])
        if not (o_rng is not None and o_rng.get("k") == "struct" and str(o_rng.get("path", "")).endswith("ops::Range") and cl is not None and cl.get("k") == "closure" and len(cl.get("params") or []) == 1):
            continue
        op = cl["params"][0]
        inner = _unblk(cl["body"])
        if not (op.get("k") == "bind" and inner is not None and inner.get("k") == "mcall" and inner.get("name") == "map" and len(inner.get("args") or []) == 1):
            continue
        i_rng = _unblk(inner["recv"])
        cl2 = _unblk(inner["args"][0])
        if not (i_rng is not None and i_rng.get("k") == "struct" and str(i_rng.get("path", "")).endswith("ops::Range") and cl2 is not None and cl2.get("k") == "closure" and len(cl2.get("params") or []) == 1):
            continue
        ip = cl2["params"][0]
        pair = _unblk(cl2["body"])
        pat = lp["pat"]
        if not (ip.get("k") == "bind" and pair is not None and pair.get("k") == "tup" and len(pair["xs"]) == 2 and pat.get("k") == "tuple" and len(pat["ps"]) == 2
                and all(q.get("k") == "bind" for q in pat["ps"])):
            continue
        a0, a1 = _unblk(pair["xs"][0]), _unblk(pair["xs"][1])
        line = lp.get("line")
        _FOLD[0] += 1
        if a0.get("k") == "local" and a0["hid"] == op["hid"] and a1.get("k") == "local" and a1["hid"] == ip["hid"]:
            inner_for = {"k": "for", "pat": pat["ps"][1], "iter": inner["recv"], "body": lp["body"], "loop_id": 9800000 + _FOLD[0], "line": line, "from_product": True}
            # the inner range may mention the closure's own outer parameter: rename it to the loop's outer binding
            for y in _walk(inner_for["iter"]):
                if y.get("k") == "local" and y.get("hid") == op["hid"]:
                    y["hid"], y["name"] = pat["ps"][0]["hid"], pat["ps"][0]["name"]
            lp["pat"] = pat["ps"][0]
        elif _pure_expr(a0) and _pure_expr(a1):
            # the items are expressions of the two indices: `for k in a..b { for l in c..d { let (p, q) = (e1, e2); body } }`
            bd = lp["body"]
            let = {"k": "let", "pat": pat, "init": cl2["body"], "els": None, "line": line}
            body2 = {"k": "blk", "b": {"k": "block", "stmts": [let] + ([bd] if bd.get("k") != "blk" or bd.get("lbl") is not None else list(bd["b"]["stmts"])),
                                       "tail": bd["b"].get("tail") if bd.get("k") == "blk" and bd.get("lbl") is None else None}, "line": line}
            inner_for = {"k": "for", "pat": {**ip, "mode": "BindingMode(No, Not)"}, "iter": inner["recv"], "body": body2, "loop_id": 9800000 + _FOLD[0], "line": line, "from_product": True}
            lp["pat"] = {**op, "mode": "BindingMode(No, Not)"}
        else:
            continue
        # `continue` of the single loop means "next item": in the nest that is the next iteration of the inner loop (`break` still leaves both)
        for y in _walk(inner_for["body"]):
            if y.get("k") == "continue" and y.get("label") in (lp.get("loop_id"), None):
                y["label"] = inner_for["loop_id"]
        lp["iter"] = it["recv"]
        lp["body"] = {"k": "blk", "b": {"k": "block", "stmts": [inner_for], "tail": None}, "line": line}
        n += 1
    # D38
    for x in _walk(fn.get("body")):
        if x.get("k") != "assign":
            continue
        r = _unblk(x["r"])
        l = _unblk(x["l"])
        if r is None or l is None or r.get("k") != "if" or r.get("el") is None or l.get("k") != "local" or _unblk(r["c"]).get("k") == "letx":
            continue
        th, el = _unblk(r["th"]), _unblk(r["el"])
        same = lambda e: e is not None and e.get("k") == "local" and e["hid"] == l["hid"]
        if same(el) and not same(th) and th is not None and r["th"].get("k") == "blk" and not r["th"]["b"]["stmts"]:
            cond, val = r["c"], r["th"]["b"]["tail"]
        elif same(th) and not same(el) and el is not None and r["el"].get("k") == "blk" and not r["el"]["b"]["stmts"]:
            cond, val = {"k": "un", "op": "Not", "x": r["c"], "line": r.get("line")}, r["el"]["b"]["tail"]
        else:
            continue
        line = x.get("line")
        asg = {"k": "assign", "l": x["l"], "r": val, "line": line}
        x.clear()
        x.update({"k": "if", "c": cond, "th": {"k": "blk", "b": {"k": "block", "stmts": [asg], "tail": None}, "line": line}, "el": None, "line": line, "from_identity_else": True})
        n += 1
    return n


_TP = [0]


def tuple_params(fn):
    """D39  a parameter written as a tuple pattern `(a, b): (T, U)` (also behind `&`) whose components are never assigned  ->  one parameter `p` with
    `a` read as `p.0` and `b` as `p.1` (how the value is taken apart at the callee's entry is not observable)."""
    n = 0
    params = fn.get("params") or []
    if fn.get("body") is None:
        return 0
    for k, p0 in enumerate(params):
        tp = p0
        while tp is not None and tp.get("k") in ("ref", "deref"):
            tp = tp["p"]
        if tp is None or tp.get("k") != "tuple" or not tp["ps"]:
            continue
        qs = []
        for z in tp["ps"]:
            zz = z
            while zz is not None and zz.get("k") in ("ref", "deref"):
                zz = zz["p"]
            qs.append(zz if zz is not None and zz.get("k") in ("bind", "wild") and not zz.get("sub") else None)
        if None in qs:
            continue
        hs = {q["hid"] for q in qs if q.get("k") == "bind"}
        if hs & _assigned_locals([fn["body"]]):
            continue
        if any(str(q.get("mode", "")).startswith("BindingMode(Ref") for q in qs if q.get("k") == "bind"):
            continue
        _TP[0] += 1
        ph = 9950000 + _TP[0]
        name = "_arg%d" % k
        mp = {q["hid"]: i for i, q in enumerate(qs) if q.get("k") == "bind"}

        def subst(x):
            if isinstance(x, list):
                return [subst(v) for v in x]
            if not isinstance(x, dict):
                return x
            if x.get("k") == "local" and x.get("hid") in mp:
                return {"k": "field", "b": {"k": "local", "name": name, "hid": ph, "line": x.get("line")}, "f": str(mp[x["hid"]]), "t": x.get("t"), "line": x.get("line")}
            for k_, v in list(x.items()):
                if isinstance(v, (dict, list)):
                    x[k_] = subst(v)
            return x
        fn["body"] = subst(fn["body"])
        ty_i = None
        tys = _TYPES[0] or []
        want_ty = (fn.get("inputs") or [None] * (k + 1))[k] if k < len(fn.get("inputs") or []) else None
        if want_ty is not None and want_ty in tys:
            ty_i = tys.index(want_ty)
        params[k] = {"k": "bind", "name": name, "hid": ph, "mode": "BindingMode(No, Not)", "t": ty_i}
        n += 1
    return n


def question_marks(fn):
    """D40  `e?` on an Option (inside a function / closure returning Option):  `match Try::branch(e) { Continue(v) => v, Break(r) => return from_residual(r) }`
            ->  `match e { Some(v) => v, None => return None }`      (the definition of `?` for Option)."""
    n = 0
    tys = _TYPES[0] or []
    for x in _walk(fn.get("body")):
        if x.get("k") != "match" or not str(x.get("src", "")).startswith("TryDesugar"):
            continue
        sc = x["scrut"]
        if sc.get("k") != "call" or sc.get("callee") != "std::ops::Try::branch" or len(sc.get("args") or []) != 1:
            continue
        e = sc["args"][0]
        ti = e.get("ta", e.get("t"))
        if ti is None or ti >= len(tys) or not tys[ti].startswith("std::option::Option<"):
            continue
        cont = [a for a in x["arms"] if str(a["pat"].get("path", "")).endswith("Continue")]
        brk = [a for a in x["arms"] if str(a["pat"].get("path", "")).endswith("Break")]
        if len(cont) != 1 or len(brk) != 1:
            continue
        vps = cont[0]["pat"].get("ps") or [q for _, q in (cont[0]["pat"].get("fs") or [])]
        if len(vps) != 1:
            continue
        line = x.get("line")
        none = {"k": "path", "def": "std::prelude::v1::None", "line": line}
        x["scrut"] = e
        x["src"] = "Normal"
        x["from_question_mark"] = True
        x["arms"] = [{"pat": {"k": "tstruct", "path": "std::prelude::v1::Some", "ps": vps}, "guard": None, "body": cont[0]["body"]},
                     {"pat": {"k": "ppath", "path": "std::prelude::v1::None"}, "guard": None, "body": {"k": "ret", "v": none, "line": line}}]
        n += 1
    return n


def let_else_over_option_block(fn):
    """D41  `let Some(P) = 'l: { s..; break 'l None; ..; tail } else { DIV };`   (an inlined helper returning Option with early `return None` / `?`, DIV a
            single `continue` / `break` / `return`)  ->  `s..; DIV (at each early exit); let Some(P) = tail else { DIV };`
            `let Some(P) = if c { Some(v) } else { None } else { DIV };`  ->  `if !c { DIV }  let P = v;`
            `let Some(P) = Some(v) else { DIV };`                          ->  `let P = v;`"""
    n = 0

    def some_pat(p):
        while p is not None and p.get("k") in ("ref", "deref"):
            p = p["p"]
        return p if (p is not None and p.get("k") == "tstruct" and p["path"].endswith("::Some") and len(p.get("ps") or []) == 1) else None

    def is_none(e):
        e = _unblk(e)
        return e is not None and e.get("k") == "path" and str(e.get("def", "")).endswith("::None")

    def some_arg(e):
        e = _unblk(e)
        if e is not None and e.get("k") == "call" and str(e.get("callee", "")).endswith("::Some") and len(e["args"]) == 1:
            return e["args"][0]
        return None

    def div_of(els):
        e = els
        while e is not None and ((e.get("k") == "blk" and e.get("lbl") is None and len(e["b"]["stmts"]) + (1 if e["b"].get("tail") is not None else 0) == 1)
                                 or (e.get("k") == "block" and len(e["stmts"]) + (1 if e.get("tail") is not None else 0) == 1)):
            if e.get("k") == "blk":
                e = e["b"]["stmts"][0] if e["b"]["stmts"] else e["b"]["tail"]
            else:
                e = e["stmts"][0] if e["stmts"] else e["tail"]
        if e is not None and e.get("k") in ("continue", "break", "ret") and e.get("v") is None:
            return e
        return None
    # `for .. { ..; if let Some(P) = 'l: { s..; break 'l None; ..; tail } { T } }` (the test is the last statement of the loop body): an early `None`
    # skips T and with it the rest of the iteration, i.e. it is `continue`
    for lp in list(_walk(fn.get("body"))):
        if lp.get("k") != "for" or not isinstance(lp.get("body"), dict) or lp["body"].get("k") != "blk":
            continue
        bb = lp["body"]["b"]
        items = list(bb["stmts"]) + ([bb["tail"]] if bb.get("tail") is not None else [])
        if not items:
            continue
        st = items[-1]
        if not (isinstance(st, dict) and st.get("k") == "if" and st.get("el") is None and _unblk(st["c"]) is not None and _unblk(st["c"]).get("k") == "letx"):
            continue
        cx = _unblk(st["c"])
        if some_pat(cx["pat"]) is None:
            continue
        init = cx["init"]
        while init.get("k") == "blk" and init.get("lbl") is None and not init["b"]["stmts"] and init["b"].get("tail") is not None:
            init = init["b"]["tail"]
        if not (init.get("k") == "blk" and init.get("lbl") is not None and init["b"].get("tail") is not None):
            continue
        lbl = init["lbl"]
        if any(y.get("k") == "break" and y.get("label") == lbl and not is_none(y.get("v")) for y in _walk(init["b"])) or any(z.get("k") in ("for", "loop") for z in _walk(init["b"])):
            continue
        div = {"k": "continue", "label": lp.get("loop_id"), "line": st.get("line")}

        def fix3(x):
            if isinstance(x, list):
                return [fix3(v) for v in x]
            if not isinstance(x, dict):
                return x
            if x.get("k") == "break" and x.get("label") == lbl:
                return copy.deepcopy(div)
            for k_, v in list(x.items()):
                if isinstance(v, (dict, list)):
                    x[k_] = fix3(v)
            return x
        pre = fix3(init["b"]["stmts"])
        cx["init"] = fix3(init["b"]["tail"])
        if bb.get("tail") is st:
            bb["stmts"] = bb["stmts"] + pre
        else:
            bb["stmts"] = bb["stmts"][:-1] + pre + [st]
        n += 1
    for blkn in list(_walk(fn.get("body"))):
        if blkn.get("k") != "block":
            continue
        changed = True
        while changed:
            changed = False
            out = []
            for st in blkn["stmts"]:
                # the same statement after D2 (`let (b..) = match INIT { Some(P) => (b..), _ => DIV }`)
                m0 = _unblk(st.get("init")) if st.get("k") == "let" and not st.get("els") and st.get("init") is not None else None
                if (m0 is not None and m0.get("k") == "match" and len(m0["arms"]) == 2 and all(a.get("guard") is None for a in m0["arms"]) and some_pat(m0["arms"][0]["pat"]) is not None
                        and m0["arms"][1]["pat"].get("k") in ("wild", "ppath") and div_of(m0["arms"][1]["body"]) is not None and not changed):
                    div = div_of(m0["arms"][1]["body"])
                    sp = some_pat(m0["arms"][0]["pat"])
                    init = m0["scrut"]
                    while init.get("k") == "blk" and init.get("lbl") is None and not init["b"]["stmts"] and init["b"].get("tail") is not None:
                        init = init["b"]["tail"]
                    line = st.get("line")
                    if init.get("k") == "blk" and init.get("lbl") is not None and init["b"].get("tail") is not None:
                        lbl = init["lbl"]
                        okb = all(not (y.get("k") == "break" and y.get("label") == lbl and not is_none(y.get("v"))) for y in _walk(init["b"]))
                        if okb and not any(z.get("k") in ("for", "loop") for z in _walk(init["b"])):
                            def fix2(x):
                                if isinstance(x, list):
                                    return [fix2(v) for v in x]
                                if not isinstance(x, dict):
                                    return x
                                if x.get("k") == "break" and x.get("label") == lbl:
                                    return copy.deepcopy(div)
                                for k_, v in list(x.items()):
                                    if isinstance(v, (dict, list)):
                                        x[k_] = fix2(v)
                                return x
                            out.extend(fix2(init["b"]["stmts"]))
                            m0["scrut"] = fix2(init["b"]["tail"])
                            out.append(st)
                            changed = True
                            n += 1
                            continue
                    i0 = _unblk(init)
                    val = None
                    if i0 is not None and i0.get("k") == "if" and i0.get("el") is not None and _unblk(i0["c"]).get("k") != "letx" and some_arg(i0["th"]) is not None and is_none(i0["el"]):
                        neg = {"k": "un", "op": "Not", "x": i0["c"], "line": line}
                        out.append({"k": "if", "c": neg, "th": {"k": "blk", "b": {"k": "block", "stmts": [copy.deepcopy(div)], "tail": None}, "line": line}, "el": None, "line": line, "from_let_else": True})
                        val = some_arg(i0["th"])
                    elif some_arg(init) is not None:
                        val = some_arg(init)
                    if val is not None:
                        out.append({"k": "let", "pat": sp["ps"][0], "init": val, "els": None, "line": line})
                        out.append({**st, "init": m0["arms"][0]["body"]})
                        changed = True
                        n += 1
                        continue
                if st.get("k") == "let" and st.get("els") is not None and st.get("init") is not None and some_pat(st["pat"]) is not None and div_of(st["els"]) is not None and not changed:
                    div = div_of(st["els"])
                    init = st["init"]
                    sp = some_pat(st["pat"])
                    line = st.get("line")
                    if init.get("k") == "blk" and init.get("lbl") is not None and init["b"].get("tail") is not None:
                        lbl = init["lbl"]
                        okb = True
                        for y in _walk(init["b"]):
                            if y.get("k") == "break" and y.get("label") == lbl and not is_none(y.get("v")):
                                okb = False
                            if y.get("k") == "closure":
                                pass
                        # the early exits must not sit inside a loop of the helper (a `continue` placed there would target that loop)
                        if okb and not any(z.get("k") in ("for", "loop") for z in _walk(init["b"])):
                            def fix(x):
                                if isinstance(x, list):
                                    return [fix(v) for v in x]
                                if not isinstance(x, dict):
                                    return x
                                if x.get("k") == "break" and x.get("label") == lbl:
                                    return copy.deepcopy(div)
                                for k_, v in list(x.items()):
                                    if isinstance(v, (dict, list)):
                                        x[k_] = fix(v)
                                return x
                            out.extend(fix(init["b"]["stmts"]))
                            st["init"] = fix(init["b"]["tail"])
                            out.append(st)
                            changed = True
                            n += 1
                            continue
                    i0 = _unblk(init)
                    if i0 is not None and i0.get("k") == "if" and i0.get("el") is not None and _unblk(i0["c"]).get("k") != "letx" and some_arg(i0["th"]) is not None and is_none(i0["el"]):
                        neg = {"k": "un", "op": "Not", "x": i0["c"], "line": line}
                        out.append({"k": "if", "c": neg, "th": {"k": "blk", "b": {"k": "block", "stmts": [copy.deepcopy(div)], "tail": None}, "line": line}, "el": None, "line": line, "from_let_else": True})
                        out.append({"k": "let", "pat": sp["ps"][0], "init": some_arg(i0["th"]), "els": None, "line": line})
                        changed = True
                        n += 1
                        continue
                    if some_arg(init) is not None:
                        out.append({"k": "let", "pat": sp["ps"][0], "init": some_arg(init), "els": None, "line": line})
                        changed = True
                        n += 1
                        continue
                out.append(st)
            blkn["stmts"] = out
    return n


_NEG = {"Lt": "Ge", "Ge": "Lt", "Gt": "Le", "Le": "Gt", "Eq": "Ne", "Ne": "Eq"}


def loop_break_value(fn):
    """D23  `let x = loop { if C { break V0; } rest.. }` with a literal V0 and a comparison C
        ->  `let mut x = V0; while !C { rest'.. }`   where every other `break V` of this loop becomes `{ x = V; break; }`.
    Same iterations, same exits, same final value of x."""
    n = 0
    for blkn in list(_walk(fn.get("body"))):
        if blkn.get("k") != "block":
            continue
        for s in blkn["stmts"]:
            if s.get("k") != "let" or s.get("els") or s["pat"].get("k") != "bind" or s.get("init") is None:
                continue
            lp = _unblk(s["init"])
            if lp is None or lp.get("k") != "loop" or lp.get("src") != "Loop":
                continue
            bd = lp["body"]
            bd = bd["b"] if bd.get("k") == "blk" else bd
            if bd.get("k") != "block" or not bd["stmts"]:
                continue
            first = _unblk(bd["stmts"][0])
            if first is None or first.get("k") != "if" or first.get("el") is not None:
                continue
            c = _unblk(first["c"])
            if c is None or c.get("k") != "bin" or c["op"] not in _NEG:
                continue
            th = first["th"]
            thb = th["b"] if th.get("k") == "blk" else None
            items = (list(thb["stmts"]) + ([thb["tail"]] if thb.get("tail") is not None else [])) if thb else []
            lid = lp.get("loop_id")
            if len(items) != 1 or _unblk(items[0]).get("k") != "break" or _unblk(items[0]).get("label") != lid:
                continue
            v0 = _unblk(items[0]).get("v")
            if v0 is None or _unblk(v0).get("k") != "lit":
                continue
            rest = bd["stmts"][1:] + ([bd["tail"]] if bd.get("tail") is not None else [])
            hid, name, t = s["pat"]["hid"], s["pat"]["name"], s["pat"].get("t")
            line = s.get("line")

            def fix(x):
                if isinstance(x, list):
                    return [fix(v) for v in x]
                if not isinstance(x, dict):
                    return x
                if x.get("k") == "closure":
                    return x
                for k_, v in list(x.items()):
                    if isinstance(v, (dict, list)):
                        x[k_] = fix(v)
                if x.get("k") == "break" and x.get("label") == lid and x.get("v") is not None:
                    asg = {"k": "assign", "l": {"k": "local", "name": name, "hid": hid, "t": t, "line": x.get("line")}, "r": x["v"], "line": x.get("line")}
                    return {"k": "blk", "b": {"k": "block", "stmts": [asg, {"k": "break", "label": lid, "v": None, "line": x.get("line")}], "tail": None},
                            "line": x.get("line")}
                return x
            rest = fix(rest)
            cond = {**c, "op": _NEG[c["op"]]}
            body_blk = {"k": "blk", "b": {"k": "block", "stmts": rest, "tail": None}, "line": lp.get("line")}
            brk = {"k": "blk", "b": {"k": "block", "stmts": [{"k": "break", "label": lid, "v": None, "line": line}], "tail": None}, "line": line}
            wl = {"k": "loop", "src": "While", "loop_id": lid, "line": lp.get("line"),
                  "body": {"k": "blk", "b": {"k": "block", "stmts": [], "tail": {"k": "if", "c": cond, "th": body_blk, "el": brk, "line": lp.get("line")}}, "line": lp.get("line")}}
            if "id" in lp:
                wl["id"] = lp["id"]
            s["init"] = v0
            s["pat"] = {**s["pat"], "mode": "BindingMode(No, Mut)"}
            s["_then"] = wl
            n += 1
        if any("_then" in s for s in blkn["stmts"] if isinstance(s, dict)):
            out = []
            for s in blkn["stmts"]:
                out.append(s)
                if isinstance(s, dict) and "_then" in s:
                    out.append(s.pop("_then"))
            blkn["stmts"] = out
    return n


_CTR = [0]


def run(facts):
    counts = {"debug_asserts": 0, "let_else": 0, "destructured": 0, "local_closures": 0}
    counts["consts"] = inline_consts(facts)
    ctr = _CTR
    for fn in facts["fns"].values():
        if fn.get("body") is None:
            continue
        _TYPES[0] = facts.get("types")
        counts["debug_asserts"] += strip_debug_asserts(fn["body"])
        counts["tuple_params"] = counts.get("tuple_params", 0) + tuple_params(fn)
        counts["question_marks"] = counts.get("question_marks", 0) + question_marks(fn)
        counts["tail_returns"] = counts.get("tail_returns", 0) + tail_returns(fn)
        counts["range_for_each"] = counts.get("range_for_each", 0) + range_for_each(fn)
        counts["compound_assignments"] = counts.get("compound_assignments", 0) + compound_assignments(fn)
        counts["mut_ref_aliases"] = counts.get("mut_ref_aliases", 0) + mut_ref_aliases(fn)
        counts["struct_subpatterns"] = counts.get("struct_subpatterns", 0) + struct_subpatterns(fn)
        counts["eta_reduced"] = counts.get("eta_reduced", 0) + eta_reduce(fn)
        counts["partial_cmp_matches"] = counts.get("partial_cmp_matches", 0) + partial_cmp_match(fn)
        counts["reduce_max_by"] = counts.get("reduce_max_by", 0) + reduce_to_max_by(fn)
        counts["tuple_folds"] = counts.get("tuple_folds", 0) + tuple_folds(fn)
        counts["scalar_folds"] = counts.get("scalar_folds", 0) + scalar_folds(fn)
        counts["compound_assignments"] = counts.get("compound_assignments", 0) + compound_assignments(fn)
        counts["tuple_folds"] = counts.get("tuple_folds", 0) + tuple_folds(fn)
        counts["inclusive_ranges"] = counts.get("inclusive_ranges", 0) + inclusive_ranges(fn)
        counts["mem_replace"] = counts.get("mem_replace", 0) + mem_replace(fn)
        counts["swap_sequences"] = counts.get("swap_sequences", 0) + swap_sequences(fn)
        counts["iflet_chains"] = counts.get("iflet_chains", 0) + iflet_chain_to_match(fn)
        counts["match_guards"] = counts.get("match_guards", 0) + match_guards(fn)
        counts["bool_matches"] = counts.get("bool_matches", 0) + bool_match_to_if(fn)
        counts["loop_break_values"] = counts.get("loop_break_values", 0) + loop_break_value(fn)
        counts["repeat_take"] = counts.get("repeat_take", 0) + repeat_take_collect(fn)
        counts["rev_iter_pop"] = counts.get("rev_iter_pop", 0) + rev_iter_next_to_pop(fn)
        counts["ufcs_calls"] = counts.get("ufcs_calls", 0) + ufcs_calls(fn, facts["fns"])
        counts["tuple_if_let"] = counts.get("tuple_if_let", 0) + tuple_if_let(fn)
        counts["slice_matches"] = counts.get("slice_matches", 0) + slice_pattern_matches(fn)
        counts["deref_of_ref"] = counts.get("deref_of_ref", 0) + deref_of_ref(fn)
        counts["loop_exit_tests"] = counts.get("loop_exit_tests", 0) + loop_exit_tests(fn)
        counts["while_loops"] = counts.get("while_loops", 0) + while_to_for(fn, facts["types"])
        counts["while_let_next"] = counts.get("while_let_next", 0) + while_let_next(fn)
        _TYPES[0] = facts.get("types")
        counts["option_combinators"] = counts.get("option_combinators", 0) + option_combinators(fn)
        counts["let_else_option_blocks"] = counts.get("let_else_option_blocks", 0) + let_else_over_option_block(fn)
        counts["let_else"] += let_else_to_match(fn["body"])
        counts["case_of_case"] = counts.get("case_of_case", 0) + option_case_of_case(fn)
        counts["lifted_arg_blocks"] = counts.get("lifted_arg_blocks", 0) + lift_arg_blocks(fn, facts["types"])
        counts["trivial_arg_blocks"] = counts.get("trivial_arg_blocks", 0) + unwrap_trivial_arg_blocks(fn)
        counts["flattened_blocks"] = counts.get("flattened_blocks", 0) + flatten_blocks(fn)
        counts["case_of_case"] = counts.get("case_of_case", 0) + option_case_of_case(fn)
        counts["split_tuple_lets"] = counts.get("split_tuple_lets", 0) + split_tuple_lets(fn["body"])
        counts["move_aliases"] = counts.get("move_aliases", 0) + move_aliases(fn)
        counts["mut_ref_aliases"] = counts.get("mut_ref_aliases", 0) + mut_ref_aliases(fn)
        counts["destructured"] += destructure_subst(fn, facts["types"])
        lc_ = inline_local_closures(fn, ctr)
        counts["local_closures"] += lc_
        if lc_:
            counts["flattened_blocks"] = counts.get("flattened_blocks", 0) + flatten_blocks(fn)
            counts["case_of_case"] = counts.get("case_of_case", 0) + option_case_of_case(fn)
            counts["flattened_blocks"] = counts.get("flattened_blocks", 0) + flatten_blocks(fn)
            counts["split_tuple_lets"] = counts.get("split_tuple_lets", 0) + split_tuple_lets(fn["body"])
            counts["mut_ref_aliases"] = counts.get("mut_ref_aliases", 0) + mut_ref_aliases(fn)
            counts["move_aliases"] = counts.get("move_aliases", 0) + move_aliases(fn)
        tv_ = split_tuple_values(fn)
        counts["tuple_values"] = counts.get("tuple_values", 0) + tv_
        ss_ = split_local_structs(fn, facts.get("adts"))
        counts["local_structs"] = counts.get("local_structs", 0) + ss_
        tv_ += ss_
        rounds_ = 0
        while tv_ and rounds_ < 3:
            # projections were replaced by their components: aliases of the places they name may be recognisable only now
            rounds_ += 1
            counts["flattened_blocks"] = counts.get("flattened_blocks", 0) + flatten_blocks(fn)
            counts["mut_ref_aliases"] = counts.get("mut_ref_aliases", 0) + mut_ref_aliases(fn)
            counts["move_aliases"] = counts.get("move_aliases", 0) + move_aliases(fn)
            tv_ = split_tuple_values(fn)
            counts["tuple_values"] += tv_
    facts["_desugared"] = counts
    return counts
