"""Pre-pass: reduce a few surface forms to the one the rules already understand (all rewrites are semantics preserving).

  D1  `debug_assert!(..)` statements are removed: they restate facts, and when one fires the call is a rejection
      (panic), never a wrong result.
  D2  `let PAT = e else { diverge };` with a refutable (enum) pattern becomes
      `let (b1, .., bn) = match e { PAT' => (b1', .., bn'), _ => { diverge } };`  (one binding: `let b = match ..`),
      the spelling the pinned tree uses for "take the extents of a Shape::Triple or panic".
  D3  `let (a, b) = <pure place>;` of an immutable tuple place (`self.stride`, `self.kernel` in a `&self` method, an
      immutable local) is substituted: every use of `a` becomes `<place>.0`, so index arithmetic written with
      destructured locals normalises to the same atoms as arithmetic written with `self.stride.0`.
  D4  `let (a, b) = (e1, e2);` is split into `let a = e1; let b = e2;`.
  D5  a local closure whose every use is a direct call is inlined at its call sites.
  D7  (applied by the loop-nest extractor sa/mac.py only) `for (i, e) in X.iter().enumerate()` over a pure place becomes `for i in 0..X.len()` with `e` replaced by `X[i]`.
  D6  `let d = (e0, e1, ..);` used only as `d.N` (with duplicable components) is replaced by its components.
"""
import copy

OFF = 8000000


def _walk(n):
    stack = [n]
    while stack:
        x = stack.pop()
        if isinstance(x, dict):
            yield x
            stack.extend(x.values())
        elif isinstance(x, list):
            stack.extend(x)


def _binds(p, out=None):
    out = [] if out is None else out
    if p is None:
        return out
    k = p.get("k")
    if k == "bind":
        out.append(p)
        if p.get("sub"):
            _binds(p["sub"], out)
    elif k in ("tuple", "tstruct", "or"):
        for q in p["ps"]:
            _binds(q, out)
    elif k == "struct":
        for _, q in p["fs"]:
            _binds(q, out)
    elif k in ("ref", "deref"):
        _binds(p["p"], out)
    return out


def _refutable(p):
    k = p.get("k")
    if k in ("ref", "deref"):
        return _refutable(p["p"])
    if k in ("tstruct", "ppath", "plit", "or"):
        return True
    if k == "struct":
        return True
    if k == "tuple":
        return any(_refutable(q) for q in p["ps"])
    return False


def strip_debug_asserts(body):
    n = 0
    for b in _walk(body):
        if b.get("k") == "block":
            keep = []
            for s in b["stmts"]:
                s0 = s
                while s0 is not None and s0.get("k") == "blk" and not s0["b"]["stmts"] and s0["b"]["tail"] is not None:
                    s0 = s0["b"]["tail"]
                if s0 is not None and str(s0.get("mac") or "").startswith("debug_assert"):
                    n += 1
                    continue
                keep.append(s)
            b["stmts"] = keep
    return n


def let_else_to_match(body):
    n = 0
    for s in _walk(body):
        if s.get("k") == "let" and s.get("els") is not None and s.get("init") is not None and _refutable(s["pat"]):
            binds = _binds(s["pat"])
            inner = copy.deepcopy(s["pat"])
            for q in _walk(inner):
                if q.get("k") == "bind":
                    q["hid"] = q["hid"] + OFF
            locs = [{"k": "local", "name": b["name"], "hid": b["hid"] + OFF, "t": b.get("t"), "line": s.get("line")} for b in binds]
            if len(binds) == 1:
                val = locs[0]
                outer = dict(binds[0])
                outer.pop("sub", None)
                # a `ref` binding mode on the inner pattern is kept there; the outer binding takes the value as is
                outer["mode"] = "BindingMode(No, Not)" if "Mut)" not in str(outer.get("mode")) else "BindingMode(No, Mut)"
            else:
                val = {"k": "tup", "xs": locs, "line": s.get("line")}
                ps = []
                for b in binds:
                    o = dict(b)
                    o.pop("sub", None)
                    o["mode"] = "BindingMode(No, Not)" if "Mut)" not in str(o.get("mode")) else "BindingMode(No, Mut)"
                    ps.append(o)
                outer = {"k": "tuple", "ps": ps}
            m = {"k": "match", "scrut": s["init"], "src": "Normal", "line": s.get("line"),
                 "arms": [{"pat": inner, "guard": None, "body": val},
                          {"pat": {"k": "wild"}, "guard": None, "body": s["els"]}]}
            s["pat"] = outer
            s["init"] = m
            s["els"] = None
            s["from_let_else"] = True
            n += 1
    return n


def _pure_place(n, depth=0):
    if n is None or depth > 5:
        return False
    k = n.get("k")
    if k == "local":
        return True
    if k == "field":
        return _pure_place(n["b"], depth + 1)
    if k == "ref" and not n.get("mut"):
        return _pure_place(n["x"], depth + 1)
    if k == "un" and n.get("op") == "Deref":
        return _pure_place(n["x"], depth + 1)
    if k == "blk" and not n["b"]["stmts"] and n["b"]["tail"] is not None:
        return _pure_place(n["b"]["tail"], depth + 1)
    return False


def _root(n):
    while n is not None and n.get("k") in ("field", "ref", "un", "blk"):
        if n["k"] == "field":
            n = n["b"]
        elif n["k"] in ("ref", "un"):
            n = n["x"]
        else:
            n = n["b"]["tail"]
    return n


def destructure_subst(fn, types):
    body = fn.get("body")
    n = 0
    # which locals are ever assigned / mutably borrowed (then their fields are not stable)
    unstable = set()
    for x in _walk(body):
        if x.get("k") in ("assign", "assignop"):
            r = _root(x["l"])
            if r is not None and r.get("k") == "local":
                unstable.add(r["hid"])
        if x.get("k") == "ref" and x.get("mut"):
            r = _root(x["x"])
            if r is not None and r.get("k") == "local":
                unstable.add(r["hid"])
        if x.get("k") == "mcall":
            ta = x["recv"].get("ta", x["recv"].get("t"))
            if ta is not None and types[ta].startswith("&mut"):
                r = _root(x["recv"])
                if r is not None and r.get("k") == "local":
                    unstable.add(r["hid"])
    self_shared = False
    for p in fn.get("params") or []:
        if p.get("k") == "bind" and p.get("name") == "self":
            t = types[p["t"]] if p.get("t") is not None else ""
            self_shared = t.startswith("&") and not t.startswith("&mut")
            if not self_shared:
                unstable.add(p["hid"])
    mapping = {}
    for b in _walk(body):
        if b.get("k") != "block":
            continue
        keep = []
        for s in b["stmts"]:
            ok = (s.get("k") == "let" and s.get("init") is not None and s.get("els") is None and s["pat"].get("k") == "tuple"
                  and all(q.get("k") in ("bind", "wild") and not q.get("sub") and "Mut)" not in str(q.get("mode")) and not str(q.get("mode", "")).startswith("BindingMode(Ref")
                          for q in s["pat"]["ps"]) and _pure_place(s["init"]))
            if ok:
                r = _root(s["init"])
                ok = r is not None and r.get("k") == "local" and r["hid"] not in unstable and r["hid"] not in mapping
            if ok:
                init = s["init"]
                while init.get("k") in ("ref",) or (init.get("k") == "blk"):
                    init = init["x"] if init["k"] == "ref" else init["b"]["tail"]
                for i, q in enumerate(s["pat"]["ps"]):
                    if q.get("k") == "bind":
                        mapping[q["hid"]] = {"k": "field", "b": init, "f": str(i), "t": q.get("t"), "line": s.get("line")}
                n += 1
                continue
            keep.append(s)
        b["stmts"] = keep
    if mapping:
        def subst(x):
            if isinstance(x, dict):
                if x.get("k") == "local" and x.get("hid") in mapping:
                    return copy.deepcopy(mapping[x["hid"]])
                for k_, v in list(x.items()):
                    if isinstance(v, (dict, list)):
                        x[k_] = subst(v)
                return x
            if isinstance(x, list):
                return [subst(v) for v in x]
            return x
        fn["body"] = subst(body)
    return n


def split_tuple_lets(body):
    """D4  `let (a, b) = (e1, e2);`  ->  `let a = e1; let b = e2;`  (same evaluation order)"""
    n = 0
    for b in _walk(body):
        if b.get("k") != "block":
            continue
        new = []
        for s in b["stmts"]:
            init = s.get("init") if s.get("k") == "let" else None
            while init is not None and init.get("k") == "blk" and not init["b"]["stmts"] and init["b"]["tail"] is not None:
                init = init["b"]["tail"]
            if (s.get("k") == "let" and s.get("els") is None and s["pat"].get("k") == "tuple" and init is not None and init.get("k") == "tup"
                    and len(init["xs"]) == len(s["pat"]["ps"]) and all(q.get("k") in ("bind", "wild") for q in s["pat"]["ps"])):
                for q, e in zip(s["pat"]["ps"], init["xs"]):
                    if q.get("k") == "wild":
                        new.append({"k": "let", "pat": {"k": "wild"}, "init": e, "els": None, "line": s.get("line")})
                    else:
                        new.append({"k": "let", "pat": q, "init": e, "els": None, "line": s.get("line")})
                n += 1
            else:
                new.append(s)
        b["stmts"] = new
    return n


def inline_local_closures(fn, counter):
    """D5  `let f = |p| body; .. f(a) ..`  ->  `.. { let p = a; body } ..` when every use of `f` is a direct call
    (the closure is a local function; captured variables keep their identity because ids are per function)."""
    from . import inline as _inl
    body = fn.get("body")
    n = 0
    for b in list(_walk(body)):
        if b.get("k") != "block":
            continue
        for s in list(b["stmts"]):
            if not (s.get("k") == "let" and s.get("init") is not None and s.get("els") is None and s["pat"].get("k") == "bind"
                    and "Mut)" not in str(s["pat"].get("mode"))):
                continue
            init = s["init"]
            while init.get("k") == "blk" and not init["b"]["stmts"] and init["b"]["tail"] is not None:
                init = init["b"]["tail"]
            if init.get("k") != "closure":
                continue
            hid = s["pat"]["hid"]
            uses = [x for x in _walk(fn["body"]) if x.get("k") == "local" and x.get("hid") == hid]
            callsites = [x for x in _walk(fn["body"]) if x.get("k") == "call" and isinstance(x.get("f"), dict) and x["f"].get("k") == "local" and x["f"].get("hid") == hid]
            if not uses or len(uses) != len(callsites):
                continue
            if any(y.get("k") == "ret" for y in _walk(init["body"])):
                continue
            helper = {"params": init["params"], "body": init["body"], "path": "closure:" + str(s["pat"].get("name"))}
            ok = True

            def rewrite(x):
                nonlocal ok
                if isinstance(x, list):
                    return [rewrite(v) for v in x]
                if not isinstance(x, dict):
                    return x
                for k_, v in list(x.items()):
                    if isinstance(v, (dict, list)):
                        x[k_] = rewrite(v)
                if x.get("k") == "call" and isinstance(x.get("f"), dict) and x["f"].get("k") == "local" and x["f"].get("hid") == hid:
                    counter[0] += 1
                    e = _inl._expand(x, helper, 4000 + counter[0])
                    if e is None:
                        ok = False
                        return x
                    return e
                return x
            saved = copy.deepcopy(fn["body"])
            fn["body"] = rewrite(fn["body"])
            if not ok:
                fn["body"] = saved
                return n
            # drop the `let f = ..` (the block objects were rewritten in place: find it again)
            for b2 in _walk(fn["body"]):
                if b2.get("k") == "block":
                    b2["stmts"] = [t for t in b2["stmts"] if not (t.get("k") == "let" and t.get("pat", {}).get("k") == "bind" and t["pat"].get("hid") == hid
                                                                  and t.get("init") is not None and any(y.get("k") == "closure" for y in _walk(t["init"])) )]
            n += 1
    return n


def split_tuple_values(fn):
    """D6  `let d = (e0, e1, ..);` with every use of `d` of the form `d.N` and every e_i a duplicable pure place / literal:
    each `d.N` is replaced by e_N and the let is dropped (e.g. the argument tuple of an inlined helper)."""
    body = fn.get("body")
    n = 0
    for b in list(_walk(body)):
        if b.get("k") != "block":
            continue
        for s in list(b["stmts"]):
            if not (s.get("k") == "let" and s.get("init") is not None and s.get("els") is None and s["pat"].get("k") == "bind"
                    and "Mut)" not in str(s["pat"].get("mode"))):
                continue
            init = s["init"]
            while init.get("k") == "blk" and not init["b"]["stmts"] and init["b"]["tail"] is not None:
                init = init["b"]["tail"]
            if init.get("k") != "tup" or not init["xs"]:
                continue

            def dup_ok(e):
                while e is not None and e.get("k") in ("ref", "blk") or (e is not None and e.get("k") == "un" and e.get("op") == "Deref"):
                    if e["k"] == "blk":
                        if e["b"]["stmts"] or e["b"]["tail"] is None:
                            return False
                        e = e["b"]["tail"]
                    else:
                        e = e["x"]
                return e is not None and (e.get("k") in ("local", "lit") or (e.get("k") == "field" and _pure_place(e)))
            if not all(dup_ok(e) for e in init["xs"]):
                continue
            hid = s["pat"]["hid"]
            uses = [x for x in _walk(fn["body"]) if x.get("k") == "local" and x.get("hid") == hid]
            fields = [x for x in _walk(fn["body"]) if x.get("k") == "field" and isinstance(x.get("b"), dict) and x["b"].get("k") == "local" and x["b"].get("hid") == hid
                      and str(x.get("f")).isdigit() and int(x["f"]) < len(init["xs"])]
            if not uses or len(uses) != len(fields):
                continue
            comps = init["xs"]

            def subst(x):
                if isinstance(x, list):
                    return [subst(v) for v in x]
                if not isinstance(x, dict):
                    return x
                if x.get("k") == "field" and isinstance(x.get("b"), dict) and x["b"].get("k") == "local" and x["b"].get("hid") == hid and str(x.get("f")).isdigit():
                    return copy.deepcopy(comps[int(x["f"])])
                for k_, v in list(x.items()):
                    if isinstance(v, (dict, list)):
                        x[k_] = subst(v)
                return x
            fn["body"] = subst(fn["body"])
            for b2 in _walk(fn["body"]):
                if b2.get("k") == "block":
                    b2["stmts"] = [t for t in b2["stmts"] if not (t.get("k") == "let" and t.get("pat", {}).get("k") == "bind" and t["pat"].get("hid") == hid)]
            n += 1
    return n


_ZIP = [0]


def enumerate_to_index(fn, types):
    """D7  `for (i, e) in X.iter().enumerate() { body }`  ->  `for i in 0..X.len() { body[e := X[i]] }` when X is a pure place that the
    body does not assign / borrow mutably as a whole (same elements, same order; the index form is what the loop-nest extractor reads)."""
    n = 0
    usize_t = types.index("usize") if "usize" in types else None
    for lp in list(_walk(fn.get("body"))):
        if lp.get("k") != "for":
            continue
        it = lp["iter"]
        while it.get("k") == "blk" and not it["b"]["stmts"] and it["b"]["tail"] is not None:
            it = it["b"]["tail"]
        if it.get("k") == "mcall" and it.get("name") == "zip" and len(it["args"]) == 1:
            # `for (a, b) in A.iter().zip(B.iter_mut())` over two pure places: index form with a fresh index variable
            def side(e):
                while e.get("k") == "blk" and not e["b"]["stmts"] and e["b"]["tail"] is not None:
                    e = e["b"]["tail"]
                if e.get("k") == "mcall" and e.get("name") in ("iter", "iter_mut") and not e["args"] and _pure_place_idx(e["recv"]):
                    return e["recv"]
                return None
            A, B = side(it["recv"]), side(it["args"][0])
            pat = lp["pat"]
            if A is None or B is None or not (pat.get("k") == "tuple" and len(pat["ps"]) == 2):
                continue
            pa, pb = pat["ps"]
            while pa.get("k") in ("ref", "deref"):
                pa = pa["p"]
            while pb.get("k") in ("ref", "deref"):
                pb = pb["p"]
            if not (pa.get("k") == "bind" and pb.get("k") == "bind" and not pa.get("sub") and not pb.get("sub")):
                continue
            _ZIP[0] += 1
            ih = 9000000 + _ZIP[0]
            idx_local = {"k": "local", "name": "_zi%d" % _ZIP[0], "hid": ih, "t": usize_t, "line": lp.get("line")}
            rep = {pa["hid"]: {"k": "index", "b": copy.deepcopy(A), "i": idx_local, "t": pa.get("t"), "line": lp.get("line")},
                   pb["hid"]: {"k": "index", "b": copy.deepcopy(B), "i": idx_local, "t": pb.get("t"), "line": lp.get("line")}}

            def subst2(x):
                if isinstance(x, list):
                    return [subst2(v) for v in x]
                if not isinstance(x, dict):
                    return x
                if x.get("k") == "local" and x.get("hid") in rep:
                    return copy.deepcopy(rep[x["hid"]])
                for k_, v in list(x.items()):
                    if isinstance(v, (dict, list)):
                        x[k_] = subst2(v)
                return x
            lp["body"] = subst2(lp["body"])
            lp["pat"] = {"k": "bind", "name": "_zi%d" % _ZIP[0], "hid": ih, "mode": "BindingMode(No, Not)", "t": usize_t}
            lp["iter"] = {"k": "struct", "path": "std::ops::Range", "mac": "Desugaring(RangeExpr)", "line": lp.get("line"),
                          "fs": [["start", {"k": "lit", "v": "0", "t": usize_t}],
                                 ["end", {"k": "mcall", "name": "len", "callee": "std::vec::Vec::<T, A>::len", "recv": copy.deepcopy(A), "args": [], "t": usize_t, "line": lp.get("line")}]]}
            lp["from_zip"] = True
            n += 1
            continue
        if not (it.get("k") == "mcall" and it.get("name") == "enumerate" and not it["args"]):
            continue
        src = it["recv"]
        while src.get("k") == "blk" and not src["b"]["stmts"] and src["b"]["tail"] is not None:
            src = src["b"]["tail"]
        if not (src.get("k") == "mcall" and src.get("name") in ("iter", "iter_mut") and not src["args"]):
            continue
        X = src["recv"]
        if not _pure_place_idx(X):
            continue
        pat = lp["pat"]
        if not (pat.get("k") == "tuple" and len(pat["ps"]) == 2):
            continue
        pi, pe = pat["ps"]
        while pe.get("k") in ("ref", "deref"):
            pe = pe["p"]
        if not (pi.get("k") == "bind" and pe.get("k") in ("bind", "wild") and not pe.get("sub")):
            continue
        r = _root(X) if X.get("k") != "index" else None
        # the collection must not be reassigned inside the body
        root = X
        while root is not None and root.get("k") in ("field", "index", "ref", "un", "blk"):
            root = root["b"] if root["k"] in ("field", "index") else (root["x"] if root["k"] in ("ref", "un") else root["b"]["tail"])
        if root is None or root.get("k") != "local":
            continue
        bad = False
        for x in _walk(lp["body"]):
            if x.get("k") == "assign":
                l = x["l"]
                while l is not None and l.get("k") == "blk":
                    l = l["b"]["tail"]
                if l is not None and l.get("k") == "local" and l.get("hid") == root["hid"]:
                    bad = True
        if bad:
            continue
        idx_local = {"k": "local", "name": pi["name"], "hid": pi["hid"], "t": pi.get("t"), "line": lp.get("line")}
        elem = {"k": "index", "b": copy.deepcopy(X), "i": idx_local, "t": pe.get("t"), "line": lp.get("line")}
        if pe.get("k") == "bind":
            eh = pe["hid"]

            def subst(x):
                if isinstance(x, list):
                    return [subst(v) for v in x]
                if not isinstance(x, dict):
                    return x
                if x.get("k") == "local" and x.get("hid") == eh:
                    return copy.deepcopy(elem)
                for k_, v in list(x.items()):
                    if isinstance(v, (dict, list)):
                        x[k_] = subst(v)
                return x
            lp["body"] = subst(lp["body"])
        lp["pat"] = pi
        lp["iter"] = {"k": "struct", "path": "std::ops::Range", "mac": "Desugaring(RangeExpr)", "line": lp.get("line"),
                      "fs": [["start", {"k": "lit", "v": "0", "t": usize_t}],
                             ["end", {"k": "mcall", "name": "len", "callee": "std::vec::Vec::<T, A>::len", "recv": copy.deepcopy(X), "args": [], "t": usize_t, "line": lp.get("line")}]]}
        lp["from_enumerate"] = True
        n += 1
    return n


def _pure_place_idx(n, depth=0):
    if n is None or depth > 6:
        return False
    k = n.get("k")
    if k == "local":
        return True
    if k == "field":
        return _pure_place_idx(n["b"], depth + 1)
    if k == "index":
        return _pure_place_idx(n["b"], depth + 1) and _pure_place_idx(n["i"], depth + 1)
    if k == "ref":
        return _pure_place_idx(n["x"], depth + 1)
    if k == "un" and n.get("op") == "Deref":
        return _pure_place_idx(n["x"], depth + 1)
    if k == "blk" and not n["b"]["stmts"] and n["b"]["tail"] is not None:
        return _pure_place_idx(n["b"]["tail"], depth + 1)
    return False


_CTR = [0]


def run(facts):
    counts = {"debug_asserts": 0, "let_else": 0, "destructured": 0, "local_closures": 0}
    ctr = _CTR
    for fn in facts["fns"].values():
        if fn.get("body") is None:
            continue
        counts["debug_asserts"] += strip_debug_asserts(fn["body"])
        counts["let_else"] += let_else_to_match(fn["body"])
        counts["split_tuple_lets"] = counts.get("split_tuple_lets", 0) + split_tuple_lets(fn["body"])
        counts["destructured"] += destructure_subst(fn, facts["types"])
        counts["local_closures"] += inline_local_closures(fn, ctr)
        counts["tuple_values"] = counts.get("tuple_values", 0) + split_tuple_values(fn)
    facts["_desugared"] = counts
    return counts
