"""E3a: axis typing of index arithmetic (height vs width).

A type-directed dataflow over usize-valued expressions.  Every value gets a tag (axis, strong):
  axis   H / W / C (channel, filter, other) / X (area-like product of extents) / None (neutral)
  strong True when the value is derived from a geometry component (kernel/stride/padding/dilation
         tuple field) or a loop index; False for plain extents (len(), shape components).
Sources: `E.len()` typed by the nesting depth of E's Vec type ([C][H][W] data: depth 1 = W, 2 = H),
`.0`/`.1` of (usize,usize) values, Shape::Triple(c,h,w) bindings, loop variables (axis of the range).
Rule: an additive/comparison/step/index/tuple-position use must not combine H with W; a product may
combine H with W only when both are plain extents (an element count).  This is what makes
non-square inputs/kernels and asymmetric stride/padding/dilation come out right.
"""
from .hir import strip, walk, pretty, short, pat_binds, children

HW = ("H", "W")


class Tag:
    __slots__ = ("axis", "strong")

    def __init__(self, axis=None, strong=False):
        self.axis, self.strong = axis, strong

    def __repr__(self):
        return "%s%s" % (self.axis or "-", "!" if self.strong else "")


NEUTRAL = Tag()


def vec_depth(ty):
    """(depth, elem) for (refs to) nested Vec types; depth 0 if not a Vec"""
    t = (ty or "").replace("&mut ", "").replace("&", "").replace("'_ ", "")
    d = 0
    while t.startswith("std::vec::Vec<") and t.endswith(">"):
        t = t[len("std::vec::Vec<"):-1]
        d += 1
    return d, t


def axis_of_depth(d, elem):
    """axis of the dimension whose *length* is E.len() / that E[i] indexes, for E of nesting depth d"""
    if elem in ("f32", "f64"):
        return {1: "W", 2: "H"}.get(d, "C" if d >= 3 else None)
    if elem == "(usize, usize)":
        # max-pool indices [C][H][W][list]
        return {1: None, 2: "W", 3: "H"}.get(d, "C" if d >= 4 else None)
    return None


class Axes:
    def __init__(self, crate, fn):
        self.c = crate
        self.fn = fn
        self.env = {}
        self.conflicts = []   # (node, kind, detail)
        self.tagged = 0

    def ty(self, n):
        return self.c.ty(n) or ""

    def is_usize(self, n):
        return self.ty(n).lstrip("&") in ("usize", "mut usize")

    # ------------------------------------------------------------------ tags
    def tag(self, n):
        n0 = n
        n = strip(n)
        if n is None:
            return NEUTRAL
        k = n.get("k")
        t = self._tag(n, k)
        if t.axis in HW:
            self.tagged += 1
        return t

    def _tag(self, n, k):
        if k == "lit":
            return NEUTRAL
        if k == "local":
            return self.env.get(n["hid"], NEUTRAL)
        if k == "cast":
            return self.tag(n["x"])
        if k == "field":
            bt = self.ty(strip(n["b"])).replace("&mut ", "").replace("&", "")
            if bt == "(usize, usize)" and n["f"] in ("0", "1"):
                return Tag("H" if n["f"] == "0" else "W", True)
            if bt == "(usize, usize, usize)" and n["f"] in ("0", "1", "2"):
                return Tag({"0": "C", "1": "H", "2": "W"}[n["f"]], False)
            return NEUTRAL
        if k == "mcall":
            name = n["name"]
            if name == "len" and not n["args"]:
                d, el = vec_depth(self.c.tya(n["recv"]) if "ta" in strip(n["recv"]) else self.ty(strip(n["recv"])))
                d2, el2 = vec_depth(self.ty(strip(n["recv"])))
                if d2 > d:
                    d, el = d2, el2
                return Tag(axis_of_depth(d, el), False)
            if self.is_usize(n) and self.is_usize(strip(n["recv"])) and len(n["args"]) <= 1:
                a = self.tag(n["recv"])
                if n["args"] and name in ("checked_sub", "saturating_sub", "wrapping_sub", "min", "max", "checked_add", "saturating_add", "abs_diff", "div_ceil", "checked_div"):
                    b = self.tag(n["args"][0])
                    return self.combine(n, "Mul" if name in ("div_ceil", "checked_div") else "Add", a, b)
                return a
            if name in ("checked_sub", "checked_add", "checked_div") and self.is_usize(strip(n["recv"])):
                a, b = self.tag(n["recv"]), self.tag(n["args"][0])
                return self.combine(n, "Add", a, b)
            if name in ("unwrap", "unwrap_or", "unwrap_or_default", "expect"):
                return self.tag(n["recv"])
            return NEUTRAL
        if k == "bin":
            op = n["op"]
            if op in ("And", "Or"):
                self.tag(n["l"])
                self.tag(n["r"])
                return NEUTRAL
            a, b = self.tag(n["l"]), self.tag(n["r"])
            if op in ("Lt", "Le", "Gt", "Ge", "Eq", "Ne"):
                self.combine(n, "Cmp", a, b)
                return NEUTRAL
            if op in ("Add", "Sub", "Rem"):
                return self.combine(n, "Add", a, b)
            if op in ("Mul", "Div"):
                return self.combine(n, "Mul", a, b)
            return NEUTRAL
        if k == "un":
            return self.tag(n["x"])
        if k == "blk":
            return self.block(n["b"])
        if k == "if":
            self.tag(n["c"]) if strip(n["c"]).get("k") != "letx" else self.letx(strip(n["c"]))
            a = self.tag(n["th"])
            b = self.tag(n["el"]) if n["el"] is not None else NEUTRAL
            return a if a.axis else b
        if k == "match":
            return self.match(n)
        if k == "index":
            self.check_index(n)
            return NEUTRAL
        if k == "tup":
            self.check_tuple(n)
            return NEUTRAL
        if k == "call":
            self.check_call(n)
            return NEUTRAL
        return NEUTRAL

    def combine(self, n, kind, a, b):
        if a.axis in HW and b.axis in HW and a.axis != b.axis:
            if kind == "Mul" and not a.strong and not b.strong:
                return Tag("X", False)
            self.conflicts.append((n, "mixes-height-and-width", "`%s`: %s operand is %s, %s operand is %s"
                                   % (short(pretty(n), 90), "left", _ax(a), "right", _ax(b))))
            return Tag(a.axis, True)
        if a.axis in HW:
            return Tag(a.axis, a.strong or b.strong)
        if b.axis in HW:
            return Tag(b.axis, a.strong or b.strong)
        if a.axis == "X" or b.axis == "X":
            return Tag("X", False)
        return Tag(a.axis or b.axis, a.strong or b.strong)

    # ------------------------------------------------------------------ checks
    def check_index(self, n):
        b = strip(n["b"])
        self.tag(b) if b.get("k") == "index" else None
        d, el = vec_depth(self.ty(b))
        exp = axis_of_depth(d, el)
        t = self.tag(n["i"])
        if exp in HW and t.axis in HW and t.axis != exp:
            self.conflicts.append((n, "index-of-wrong-axis", "`%s`: the %s position is indexed with a %s value"
                                   % (short(pretty(n), 90), {"H": "row (height)", "W": "column (width)"}[exp], _ax(t))))

    def check_tuple(self, n):
        ty = self.ty(n)
        want = {"(usize, usize)": ["H", "W"], "(usize, usize, usize)": ["C", "H", "W"]}.get(ty)
        tags = [self.tag(x) for x in n["xs"]]
        if want:
            for i, (t, w) in enumerate(zip(tags, want)):
                if t.axis in HW and w in HW and t.axis != w:
                    self.conflicts.append((n, "tuple-position-of-wrong-axis", "`%s`: component %d should be a %s quantity but is %s"
                                           % (short(pretty(n), 90), i, {"H": "height", "W": "width"}[w], _ax(t))))

    def check_call(self, n):
        callee = n.get("callee", "")
        args = n["args"]
        if callee == "tensor::Shape::Triple" and len(args) == 3:
            for i, w in ((1, "H"), (2, "W")):
                t = self.tag(args[i])
                if t.axis in HW and t.axis != w:
                    self.conflicts.append((n, "shape-component-of-wrong-axis", "`%s`: component %d should be the %s but is %s"
                                           % (short(pretty(n), 90), i, {"H": "height", "W": "width"}[w], _ax(t))))
            self.tag(args[0])
            return
        if callee.endswith("vec::from_elem") and len(args) == 2:
            d, el = vec_depth(self.ty(n))
            exp = axis_of_depth(d, el)
            self.tag(args[0])
            t = self.tag(args[1])
            if exp in HW and t.axis in HW and t.axis != exp:
                self.conflicts.append((n, "allocation-extent-of-wrong-axis", "`vec![..; %s]` allocates the %s dimension with a %s value"
                                       % (short(pretty(args[1]), 40), {"H": "row (height)", "W": "column (width)"}[exp], _ax(t))))
            return
        for a in args:
            self.tag(a)

    # ------------------------------------------------------------------ statements
    def bind(self, pat, val_node=None, tag=None):
        while pat.get("k") in ("ref", "deref"):
            pat = pat["p"]
        k = pat.get("k")
        if k == "bind":
            t = tag if tag is not None else (self.tag(val_node) if val_node is not None else NEUTRAL)
            self.env[pat["hid"]] = t
            return
        if k == "tuple":
            v = strip(val_node) if val_node is not None else None
            if v is not None and v.get("k") == "tup" and len(v["xs"]) == len(pat["ps"]):
                self.check_tuple(v)
                for p, x in zip(pat["ps"], v["xs"]):
                    self.bind(p, x)
                return
            if v is not None and v.get("k") == "match":
                tags = self.match_tuple(v, len(pat["ps"]))
                for p, t in zip(pat["ps"], tags):
                    self.bind(p, None, t)
                return
            if v is not None:
                self.tag(v)
            ty = self.ty(v) if v is not None else ""
            want = {"(usize, usize)": ["H", "W"], "(usize, usize, usize)": ["C", "H", "W"]}.get(ty.replace("&", ""))
            for i, p in enumerate(pat["ps"]):
                self.bind(p, None, Tag(want[i], False) if want else NEUTRAL)
            return
        if k == "tstruct":
            if pat["path"] == "tensor::Shape::Triple" and len(pat["ps"]) == 3:
                for p, a in zip(pat["ps"], ("C", "H", "W")):
                    self.bind(p, None, Tag(a, False))
                return
            for p in pat["ps"]:
                self.bind(p, None, tag if tag is not None else NEUTRAL)
            return
        for _, h in pat_binds(pat):
            self.env[h] = NEUTRAL

    def letx(self, n):
        t = self.tag(n["init"])
        self.bind(n["pat"], None, t)

    def match(self, n):
        st = self.tag(n["scrut"])
        res = NEUTRAL
        for a in n["arms"]:
            self.bind(a["pat"], None, st)
            if a["guard"] is not None:
                self.tag(a["guard"])
            t = self.tag(a["body"])
            if t.axis and not res.axis:
                res = t
        return res

    def match_tuple(self, m, n):
        """tags of the tuple components produced by the arms of a match (first arm that yields a tuple)"""
        st = self.tag(m["scrut"])
        out = [NEUTRAL] * n
        for a in m["arms"]:
            self.bind(a["pat"], None, st)
            b = strip(a["body"])
            while b is not None and b.get("k") == "blk":
                for s in b["b"]["stmts"]:
                    self.stmt(s)
                b = strip(b["b"]["tail"]) if b["b"]["tail"] is not None else None
            if b is not None and b.get("k") == "tup" and len(b["xs"]) == n:
                self.check_tuple(b)
                tags = [self.tag(x) for x in b["xs"]]
                out = [o if o.axis else t for o, t in zip(out, tags)]
            elif b is not None:
                self.tag(b)
        return out

    def block(self, b):
        for s in b["stmts"]:
            self.stmt(s)
        if b["tail"] is not None:
            return self.tag(b["tail"])
        return NEUTRAL

    def stmt(self, s):
        k = s.get("k")
        if k == "let":
            if s["init"] is not None:
                self.bind(s["pat"], s["init"])
            else:
                self.bind(s["pat"], None, NEUTRAL)
            return
        if k == "for":
            self.forloop(s)
            return
        if k in ("assign", "assignop"):
            l = strip(s["l"])
            self.tag(l)
            t = self.tag(s["r"])
            if l.get("k") == "local" and self.is_usize(l):
                old = self.env.get(l["hid"], NEUTRAL)
                if k == "assignop":
                    t = self.combine(s, "Add" if s["op"][:3] in ("Add", "Sub") else "Mul", old, t)
                self.env[l["hid"]] = t if t.axis else old
            return
        if k == "loop":
            self.block(s["body"])
            return
        self.tag(s)
        # closures: analyse bodies too (params neutral)
        for x in children(s):
            pass

    def forloop(self, s):
        it = strip(s["iter"])
        step = None
        if it.get("k") == "mcall" and it["name"] == "step_by":
            step = self.tag(it["args"][0])
            it = strip(it["recv"])
        vt = NEUTRAL
        if it.get("k") == "struct" and it["path"].startswith("std::ops::Range"):
            fs = dict((a, b) for a, b in it["fs"])
            a = self.tag(fs.get("start")) if fs.get("start") is not None else NEUTRAL
            b = self.tag(fs.get("end")) if fs.get("end") is not None else NEUTRAL
            t = self.combine(it, "Cmp", a, b)
            ax = b.axis if b.axis in HW else a.axis
            vt = Tag(ax, True) if ax in HW else Tag(ax, False)
            if step is not None and step.axis in HW and vt.axis in HW and step.axis != vt.axis:
                self.conflicts.append((s, "step-of-wrong-axis", "`%s` steps a %s range by a %s value" % (short(pretty(s["iter"]), 90), _ax(vt), _ax(step))))
            self.bind(s["pat"], None, vt)
        else:
            # iterator over data: enumerate() indices get the axis of the traversed dimension
            src = it
            enum = False
            chain = []
            while src.get("k") == "mcall" and src["name"] in ("iter", "iter_mut", "into_iter", "enumerate", "zip", "rev", "cloned"):
                chain.append(src["name"])
                if src["name"] == "enumerate":
                    enum = True
                src = strip(src["recv"])
            d, el = vec_depth(self.ty(src))
            ax = axis_of_depth(d, el)
            pat = s["pat"]
            while pat.get("k") in ("ref", "deref"):
                pat = pat["p"]
            if enum and pat.get("k") == "tuple" and len(pat["ps"]) == 2:
                self.bind(pat["ps"][0], None, Tag(ax, True) if ax in HW else Tag(ax, False))
                self.bind(pat["ps"][1], None, NEUTRAL)
            else:
                self.tag(it)
                self.bind(pat, None, NEUTRAL)
        self.tag(s["body"])

    def run(self):
        body = self.fn["body"]
        # parameters of tuple type are handled at their field uses; Shape params via patterns
        self.tag(body)
        # closure bodies
        for x in walk(body):
            if x.get("k") == "closure":
                self.tag(x["body"])
        return self


def _ax(t):
    return {"H": "height", "W": "width", "C": "channel", "X": "area", None: "neutral"}.get(t.axis, str(t.axis)) + ("-geometry/index" if t.strong else "-extent")
