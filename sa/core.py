"""Rule context, violation keys, known findings, evidence writing."""
import json
import os
import sys
import time

from .hir import Crate, short

VERIF = os.path.dirname(os.path.dirname(os.path.abspath(__file__)))


class Unestablished(Exception):
    """A structural condition could not be established (missing anchor, unknown idiom)."""

    def __init__(self, what, where=""):
        super().__init__(what)
        self.what = what
        self.where = where


class Ctx:
    """Collects obligations for one property on one crate."""

    def __init__(self, prop, facts):
        self.prop = prop
        self.facts = facts
        self.crate = Crate(facts)
        self.obligations = []   # dicts: rule, instance, status, where, detail, key
        self.floors = {}        # rule -> (min_instances, reason)
        self.analysed_fns = set()
        self.samples = []
        self.notes = []

    # -- anchors ---------------------------------------------------------
    def fn(self, path, rule="anchor"):
        f = self.crate.fn(path)
        if f is None:
            raise Unestablished("anchor function `%s` not found in the crate" % path, path)
        self.analysed_fns.add(path)
        return f

    def has_fn(self, path):
        return self.crate.fn(path) is not None

    # -- obligations -----------------------------------------------------
    def _add(self, rule, instance, status, where, detail, found=None):
        key = "%s/%s/%s" % (self.prop, rule, instance)
        if status != "ok":
            key += "/" + (found if found is not None else status.upper())
        self.obligations.append(dict(rule=rule, instance=instance, status=status, where=where,
                                     detail=detail, key=key))

    def ok(self, rule, instance, detail="", where=""):
        self._add(rule, instance, "ok", where, detail)

    def bad(self, rule, instance, found, where, detail=""):
        """A violation. `found` is a normalised description of the offending form (part of the key)."""
        self._add(rule, instance, "violation", where, detail or found, found=found)

    def unest(self, rule, instance, why, where=""):
        self._add(rule, instance, "unestablished", where, "cannot establish %s: %s" % (rule, why),
                  found="UNESTABLISHED")

    def check(self, rule, instance, cond, found, where, detail_ok="", detail_bad=""):
        if cond:
            self.ok(rule, instance, detail_ok, where)
        else:
            self.bad(rule, instance, found, where, detail_bad)
        return cond

    def floor(self, rule, n, reason=""):
        self.floors[rule] = (n, reason)

    def guard(self, rule, instance, fnc, *a, **kw):
        """Run a rule body; convert Unestablished / unexpected shape errors into fail-closed findings."""
        try:
            return fnc(*a, **kw)
        except Unestablished as u:
            self.unest(rule, instance, u.what, u.where)
        except Exception as e:  # noqa: any failure to interpret a construct fails closed, never crashes the check
            import traceback
            tb = traceback.extract_tb(sys.exc_info()[2])[-1]
            self.unest(rule, instance, "rule could not interpret the construct (%s: %s at %s:%s)"
                       % (type(e).__name__, e, os.path.basename(tb.filename), tb.lineno))
        return None

    def finish_floors(self):
        counts = {}
        for o in self.obligations:
            counts[o["rule"]] = counts.get(o["rule"], 0) + 1
        for rule, (n, reason) in self.floors.items():
            c = counts.get(rule, 0)
            if c < n:
                self._add(rule, "floor", "unestablished", "",
                          "rule matched %d instance(s), floor is %d (%s): a rule that matches too few sites "
                          "would pass vacuously" % (c, n, reason), found="FLOOR")


def load_known():
    p = os.path.join(VERIF, "known_findings.json")
    if not os.path.exists(p):
        return {"known": [], "fixed": []}
    with open(p) as fh:
        return json.load(fh)


def report(ctx, tier, level, t0, rule_texts, assumptions, trusted, extra_cov=None, quiet=False,
           evidence_dir=None, selftest=None):
    """Print findings, write evidence, return exit status."""
    ctx.finish_floors()
    known = {k["key"]: k for k in load_known().get("known", []) if k.get("property") == ctx.prop}
    viol, knownhit = [], []
    for o in ctx.obligations:
        if o["status"] == "ok":
            continue
        if o["key"] in known:
            knownhit.append(o)
        else:
            viol.append(o)
    evidence_dir = evidence_dir or os.path.join(VERIF, "evidence")
    os.makedirs(evidence_dir, exist_ok=True)
    replay = None
    if viol:
        rdir = os.path.join(VERIF, "replay")
        os.makedirs(rdir, exist_ok=True)
        replay = os.path.join(rdir, "%s.json" % ctx.prop)
        with open(replay, "w") as fh:
            json.dump({"property": ctx.prop, "repo": ctx.facts.get("src_root"), "facts_key": ctx.facts.get("_key"),
                       "violations": viol}, fh, indent=1)
    for o in knownhit:
        print("KNOWN-FINDING: property=%s %s -- %s [%s]" % (ctx.prop, o["key"], short(o["detail"], 300), o["where"]))
    for o in viol:
        print("FINDING %s\n    at %s\n    %s" % (o["key"], o["where"] or "?", o["detail"]))
    if viol:
        print("VIOLATION property=%s replay=%s" % (ctx.prop, replay))
    n_ob = len(ctx.obligations)
    n_ok = sum(1 for o in ctx.obligations if o["status"] == "ok")
    per_rule = {}
    for o in ctx.obligations:
        r = per_rule.setdefault(o["rule"], {"ok": 0, "violation": 0, "unestablished": 0})
        r[o["status"]] += 1
    samples = []
    seen_rules = set()
    for o in ctx.obligations:
        if o["rule"] not in seen_rules:
            seen_rules.add(o["rule"])
            samples.append({"rule": o["rule"], "instance": o["instance"], "status": o["status"],
                            "where": o["where"], "detail": short(o["detail"], 400)})
    distinct = len({(o["rule"], o["instance"]) for o in ctx.obligations})
    cov = {
        "explanation": "Static analysis of the type-checked HIR/MIR of /repo's current library build "
                       "(no library code is executed). Decided clauses and rules: "
                       + " | ".join("%s: %s" % (k, v) for k, v in rule_texts.items()),
        "obligations": n_ob,
        "discharged": n_ok + len(knownhit) * 0,
        "checker_cmd": "./check %s --tier %s" % (ctx.prop, tier),
        "trusted_base": trusted,
        "evaluations": n_ob,
        "distinct_nontrivial": distinct,
        "rule": "one obligation per (rule, instance) found in the resolved program; an instance is "
                "non-trivial when it is a distinct construct (function, arm, call site, expression) "
                "the rule had to inspect; counts are measured on this run",
        "samples": samples[:40],
        "per_rule": per_rule,
        "functions_analysed": sorted(ctx.analysed_fns),
        "facts_key": ctx.facts.get("_key"),
        "profile": ctx.facts.get("_profile"),
        "known_findings_hit": [o["key"] for o in knownhit],
        "notes": ctx.notes,
        "exhaustive": False,
    }
    if selftest is not None:
        cov["selftest"] = selftest
    if extra_cov:
        cov.update(extra_cov)
    ev = {
        "property_id": ctx.prop,
        "tier": tier,
        "seed": int(os.environ.get("VERIF_SEED", "0") or 0),
        "level": level,
        "coverage": cov,
        "assumptions": assumptions,
        "wall_s": round(time.time() - t0, 3),
        "violations": len(viol),
    }
    tmp = os.path.join(evidence_dir, "%s.json.tmp" % ctx.prop)
    with open(tmp, "w") as fh:
        json.dump(ev, fh, indent=1)
    os.replace(tmp, os.path.join(evidence_dir, "%s.json" % ctx.prop))
    if not quiet:
        print("[%s] tier=%s obligations=%d ok=%d known=%d violations=%d rules=%s wall=%.1fs"
              % (ctx.prop, tier, n_ob, n_ok, len(knownhit), len(viol),
                 ",".join("%s:%d" % (k, sum(v.values())) for k, v in sorted(per_rule.items())),
                 time.time() - t0))
    return 1 if viol else 0
