"""Both-ways self-test of the rules: seeded one-site mutations of /repo on scratch copies.

Each mutant is a textual replacement in one source file (anchored on a unique fragment of today's
source; a mutant whose anchor is gone is reported as skipped, never as a failure of /repo).  The
scratch copy must still compile; the property's check must report a violation whose key contains
the expected fragment.  Copies live under a fresh mkdtemp and are removed immediately.
"""
import concurrent.futures as cf
import importlib
import json
import os
import shutil
import subprocess
import sys
import tempfile

from . import facts as F
from . import core, rules

VERIF = os.path.dirname(os.path.dirname(os.path.abspath(__file__)))


def load_table():
    sys.path.insert(0, os.path.join(VERIF, "mutants"))
    import table
    importlib.reload(table)
    return table.MUTANTS


def make_copy(repo, dst):
    os.makedirs(dst)
    for n in ("Cargo.toml", "Cargo.lock"):
        shutil.copy(os.path.join(repo, n), os.path.join(dst, n))
    shutil.copytree(os.path.join(repo, "src"), os.path.join(dst, "src"))
    # Cargo.toml lists [[example]] targets: keep their paths resolvable
    ex = os.path.join(repo, "examples")
    if os.path.isdir(ex):
        for root, dirs, files in os.walk(ex):
            dirs[:] = [d for d in dirs if d != "datasets"]
            for f in files:
                if f.endswith(".rs"):
                    rel = os.path.relpath(os.path.join(root, f), repo)
                    os.makedirs(os.path.dirname(os.path.join(dst, rel)), exist_ok=True)
                    shutil.copy(os.path.join(root, f), os.path.join(dst, rel))


def run_one(mut, slot, repo="/repo"):
    """-> dict(id, status: caught|missed|skipped|nocompile, keys)"""
    tmp = tempfile.mkdtemp(prefix="nnmut-")
    try:
        dst = os.path.join(tmp, "repo")
        make_copy(repo, dst)
        p = os.path.join(dst, mut["file"])
        src = open(p).read()
        if src.count(mut["old"]) < 1:
            return dict(id=mut["id"], status="skipped", why="anchor not found")
        n = mut.get("nth", 0)
        parts = src.split(mut["old"])
        if n >= len(parts) - 1:
            return dict(id=mut["id"], status="skipped", why="anchor occurrence %d not found" % n)
        src2 = mut["old"].join(parts[: n + 1]) + mut["new"] + mut["old"].join(parts[n + 1:])
        open(p, "w").write(src2)
        try:
            fx = F.get_facts(dst, "dev", quiet=True, slot=slot)
        except F.NoVerdict as e:
            return dict(id=mut["id"], status="nocompile", why=str(e)[-300:])
        mod = rules.load(mut["prop"])
        ctx = core.Ctx(mut["prop"], fx)
        mod.run(ctx)
        ctx.finish_floors()
        known = {k["key"] for k in core.load_known().get("known", [])}
        keys = [o["key"] for o in ctx.obligations if o["status"] != "ok" and o["key"] not in known]
        hit = [k for k in keys if mut["expect"] in k]
        return dict(id=mut["id"], status="caught" if hit else "missed", keys=keys[:6], expect=mut["expect"])
    finally:
        shutil.rmtree(tmp, ignore_errors=True)


def run(prop=None, ids=None, workers=8, repo="/repo"):
    muts = [m for m in load_table() if (prop is None or m["prop"] == prop) and (ids is None or m["id"] in ids)]
    res = []
    with cf.ThreadPoolExecutor(max_workers=workers) as ex:
        futs = {ex.submit(run_one, m, "-mut%d" % (i % workers), repo): m for i, m in enumerate(muts)}
        for f in cf.as_completed(futs):
            try:
                res.append(f.result())
            except Exception as e:  # a crash of the checker on a mutant is a checker error
                res.append(dict(id=futs[f]["id"], status="error", why="%s: %s" % (type(e).__name__, e)))
    res.sort(key=lambda r: r["id"])
    errors = ["mutant %s: %s %s" % (r["id"], r["status"], r.get("why") or r.get("keys")) for r in res
              if r["status"] in ("missed", "nocompile", "error")]
    neg = []
    if prop is not None and ids is None:
        neg = run_equivalent(workers=workers, repo=repo, props=[prop])
        errors += ["behaviour-preserving edit %s: %s %s" % (r["id"], r["status"], r.get("keys") or r.get("why", "")) for r in neg
                   if r["status"] not in ("silent", "skipped")]
    meta = []
    pneg = []
    if prop is not None and ids is None:
        # systematic behaviour-preserving rewrites of the whole extracted program (sa/metamorph.py)
        from . import metamorph as M
        for which in [[t] for t in M.T] + [list(M.T)]:
            try:
                bad, counts = M.run(which, repo=repo, quiet=True, props=[prop])
            except Exception as e:  # noqa
                bad, counts = ["%s: %s" % (type(e).__name__, e)], {}
            meta.append(dict(transform="+".join(which), sites=counts, alarms=bad[:5]))
            errors += ["metamorphic transform %s: FALSE-ALARM %s" % ("+".join(which), b) for b in bad[:5]]
        # behaviour-preserving refactoring patches written by independent sub-agents
        pneg = run_patches(props=[prop], workers=workers, repo=repo)
        errors += ["refactoring patch %s: %s %s" % (r["id"], r["status"], r.get("keys") or r.get("why", "")) for r in pneg
                   if r["status"] not in ("silent", "skipped")]
    sres = []
    if prop is not None and ids is None:
        sres = run_seeds(prop, workers=workers, repo=repo)
        errors += ["stored seed %s: %s %s" % (r["id"], r["status"], r.get("why", "")) for r in sres if r["status"] in ("MISSED", "error")]
    return dict(stored_seeds=len(sres), stored_seeds_reported=sum(r["status"] == "reported" for r in sres),
                stored_seeds_skipped=[r["id"] for r in sres if r["status"] == "skipped"],
                mutants=len(res), caught=sum(r["status"] == "caught" for r in res),
                skipped=[r["id"] for r in res if r["status"] == "skipped"], errors=errors, results=res,
                negative_controls=len(neg), negative_controls_silent=sum(r["status"] == "silent" for r in neg),
                metamorphic=meta, refactoring_patches=len(pneg), refactoring_patches_silent=sum(r["status"] == "silent" for r in pneg))


def accepted_patches():
    d = os.path.join(VERIF, "mutants", "refactors")
    lst = os.path.join(d, "ACCEPTED.txt")
    if not os.path.exists(lst):
        return []
    return [os.path.join(d, l.strip()) for l in open(lst) if l.strip() and not l.startswith("#")]


def _patch_one(args):
    import subprocess
    patch, slot, props, repo, base = args
    name = os.path.basename(patch)[:-5]
    tmp = os.path.join(base, name)
    shutil.rmtree(tmp, ignore_errors=True)
    try:
        dst = os.path.join(tmp, "repo")
        make_copy(repo, dst)
        r = subprocess.run(["patch", "-p1", "-s", "-d", dst, "-i", patch], capture_output=True, text=True)
        if r.returncode != 0:
            return dict(id=name, status="skipped", why="patch does not apply to the current tree")
        try:
            fx = F.get_facts(dst, "dev", quiet=True, slot=slot)
        except F.NoVerdict as e:
            return dict(id=name, status="skipped", why="does not compile on the current tree: " + str(e)[-200:])
        known = {k["key"] for k in core.load_known().get("known", [])}
        alarms = []
        for prop in (props or rules.PROPS):
            ctx = core.Ctx(prop, fx)
            rules.load(prop).run(ctx)
            ctx.finish_floors()
            alarms += [o["key"] for o in ctx.obligations if o["status"] != "ok" and o["key"] not in known]
        return dict(id=name, status="silent" if not alarms else "FALSE-ALARM", keys=alarms[:5])
    except Exception as e:  # noqa
        return dict(id=name, status="error", why="%s: %s" % (type(e).__name__, e))
    finally:
        shutil.rmtree(tmp, ignore_errors=True)


def run_patches(props=None, workers=12, repo="/repo", patches=None):
    """negative controls: the checks must be silent on /repo + each accepted behaviour-preserving patch (one process per patch)"""
    import multiprocessing as mp
    base = os.path.join(tempfile.gettempdir(), "nnverif-neg-%d-%d" % (os.getuid(), os.getpid()))
    todo = patches if patches is not None else accepted_patches()
    F.build_driver()
    args = [(p_, "-neg%d" % (i % workers), props, repo, base) for i, p_ in enumerate(todo)]
    try:
        with mp.get_context("fork").Pool(workers) as pool:
            res = pool.map(_patch_one, args, chunksize=1)
    finally:
        shutil.rmtree(base, ignore_errors=True)
    return res


def stored_seeds(prop):
    """(id, patch) of the confirmed breaking changes kept under seeded/ whose own property is `prop` (and that its check is recorded to report)"""
    import json as _json
    import re as _re
    d = os.path.join(VERIF, "seeded")
    out = []
    for name in sorted(os.listdir(d)) if os.path.isdir(d) else []:
        mp_, pp_ = os.path.join(d, name, "meta.json"), os.path.join(d, name, "patch.diff")
        if not (os.path.isfile(mp_) and os.path.isfile(pp_)):
            continue
        try:
            m = _json.load(open(mp_))
        except ValueError:
            continue
        own = m.get("property")
        db = _json.dumps(m.get("detected_by"))
        if own and own + "/" not in db and _re.search(r"C\d\d/", db):
            own = _re.search(r"(C\d\d)/", db).group(1)
        if own == prop:
            out.append((name, pp_))
    return out


def _seed_one(args):
    r = _patch_one(args)
    if r["status"] == "FALSE-ALARM":
        r["status"] = "reported"
    elif r["status"] == "silent":
        r["status"] = "MISSED"
    return r


def run_seeds(prop, workers=12, repo="/repo"):
    """positive controls: every stored, confirmed breaking change for `prop` (seeded/) applied to a scratch copy of the current tree must be reported
    by the property's own check (a patch that no longer applies / compiles is skipped and listed)"""
    import multiprocessing as mp
    base = os.path.join(tempfile.gettempdir(), "nnverif-seed-%d-%d" % (os.getuid(), os.getpid()))
    todo = stored_seeds(prop)
    F.build_driver()
    args = [(p_, "-neg%d" % (i % workers), [prop], repo, os.path.join(base, n_)) for i, (n_, p_) in enumerate(todo)]
    try:
        with mp.get_context("fork").Pool(workers) as pool:
            res = pool.map(_seed_one, args, chunksize=1)
    finally:
        shutil.rmtree(base, ignore_errors=True)
    for (n_, _), r in zip(todo, res):
        r["id"] = n_
    return res


def run_equivalent(workers=8, repo="/repo", ids=None, props=None):
    """negative controls: every property's check must be silent on each behaviour-preserving edit"""
    sys.path.insert(0, os.path.join(VERIF, "mutants"))
    import equivalent
    importlib.reload(equivalent)
    res = []

    def one(m, slot):
        tmp = tempfile.mkdtemp(prefix="nneq-")
        try:
            dst = os.path.join(tmp, "repo")
            make_copy(repo, dst)
            p = os.path.join(dst, m["file"])
            src = open(p).read()
            n = m.get("nth", 0)
            parts = src.split(m["old"])
            if n >= len(parts) - 1:
                return dict(id=m["id"], status="skipped")
            open(p, "w").write(m["old"].join(parts[: n + 1]) + m["new"] + m["old"].join(parts[n + 1:]))
            try:
                fx = F.get_facts(dst, "dev", quiet=True, slot=slot)
            except F.NoVerdict as e:
                return dict(id=m["id"], status="nocompile", why=str(e)[-400:])
            known = {k["key"] for k in core.load_known().get("known", [])}
            alarms = []
            for prop in (props or rules.PROPS):
                mod = rules.load(prop)
                ctx = core.Ctx(prop, fx)
                mod.run(ctx)
                ctx.finish_floors()
                alarms += [o["key"] for o in ctx.obligations if o["status"] != "ok" and o["key"] not in known]
            return dict(id=m["id"], status="silent" if not alarms else "FALSE-ALARM", keys=alarms[:5])
        finally:
            shutil.rmtree(tmp, ignore_errors=True)
    todo = [m for m in equivalent.EQUIV if ids is None or m["id"] in ids]
    with cf.ThreadPoolExecutor(max_workers=workers) as ex:
        futs = [ex.submit(one, m, "-mut%d" % (i % workers)) for i, m in enumerate(todo)]
        for f in futs:
            res.append(f.result())
    return res


if __name__ == "__main__":
    import argparse
    ap = argparse.ArgumentParser()
    ap.add_argument("--prop")
    ap.add_argument("--ids", nargs="*")
    ap.add_argument("--equivalent", action="store_true")
    a = ap.parse_args()
    if a.equivalent:
        bad = 0
        for r in run_equivalent(workers=12, ids=a.ids):
            print(r["id"], r["status"], r.get("keys", ""), r.get("why", "")[-200:])
            bad += r["status"] != "silent"
        sys.exit(1 if bad else 0)
    r = run(a.prop, a.ids, workers=12)
    for x in r["results"]:
        print(x["id"], x["status"], x.get("why", ""), (x.get("keys") or [])[:3] if x["status"] != "caught" else "")
    print("caught %d/%d skipped=%s" % (r["caught"], r["mutants"], r["skipped"]))
    sys.exit(1 if r["errors"] else 0)
