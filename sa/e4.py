"""E4: control-flow / typestate / effect helpers over the HIR mirror and MIR facts.

`outcomes(node, pred)` is a small abstract path enumeration: it returns the set of
(exit_kind, hits) pairs with which control can leave `node`, where hits (capped at 2)
counts how many nodes satisfying `pred` were evaluated on the way.  Diverging code
(panic!/unimplemented!, type `!`) produces no outcome.  It is path-insensitive
(every branch is considered feasible), which is the conservative direction for
"on every path" obligations.
"""
from .hir import children, strip, walk, pretty, pat_binds

CAP = 2
FALL = ("fall",)


def _seq(a, b_fn):
    """Compose: outcomes a, then (for the falling ones) outcomes b_fn()."""
    out = set()
    falls = [c for (k, c) in a if k == FALL]
    out |= {(k, c) for (k, c) in a if k != FALL}
    if falls:
        b = b_fn()
        for ca in set(falls):
            for (k, cb) in b:
                out.add((k, min(CAP, ca + cb)))
    return out


def _loop(body_out, loop_id, infinite):
    F = {c for (k, c) in body_out if k == FALL or k == ("continue", loop_id)}
    X = {c for (k, c) in body_out if k == ("break", loop_id)}
    E = {(k, c) for (k, c) in body_out if k != FALL and k not in (("continue", loop_id), ("break", loop_id))}
    S = {0}
    changed = True
    while changed:
        changed = False
        for s in list(S):
            for f in F:
                v = min(CAP, s + f)
                if v not in S:
                    S.add(v)
                    changed = True
    out = set()
    if not infinite:
        out |= {(FALL, s) for s in S}
    for s in S:
        for x in X:
            out.add((FALL, min(CAP, s + x)))
        for (k, c) in E:
            out.add((k, min(CAP, s + c)))
    return out


class Paths:
    def __init__(self, crate, pred):
        self.c = crate
        self.pred = pred

    def diverges(self, n):
        k = n.get("k")
        if k in ("break", "continue", "ret"):
            return False
        return self.c.ty(n) == "!" if "t" in n else False

    def seq_nodes(self, nodes):
        out = {(FALL, 0)}
        for n in nodes:
            out = _seq(out, lambda n=n: self.out(n))
            if not out:
                break
        return out

    def out(self, n):
        if n is None:
            return {(FALL, 0)}
        k = n.get("k")
        hit = 1 if self.pred(n) else 0

        def bump(o):
            return {(kk, min(CAP, c + hit)) for (kk, c) in o} if hit else o

        if k == "block":
            nodes = list(n["stmts"])
            if n["tail"] is not None:
                nodes.append(n["tail"])
            return bump(self.seq_nodes(nodes))
        if k == "blk":
            return bump(self.out(n["b"]))
        if k == "let":
            o = self.out(n["init"])
            if n.get("els") is not None:
                o = _seq(o, lambda: {(FALL, 0)} | self.out(n["els"]))
            return bump(o)
        if k == "if":
            o = _seq(self.out(n["c"]), lambda: self.out(n["th"]) | (self.out(n["el"]) if n["el"] is not None else {(FALL, 0)}))
            return bump(o)
        if k == "match":
            def arms():
                r = set()
                for a in n["arms"]:
                    if a["guard"] is not None:
                        r |= _seq(self.out(a["guard"]), lambda a=a: self.out(a["body"]) | {(FALL, 0)})
                    else:
                        r |= self.out(a["body"])
                return r
            return bump(_seq(self.out(n["scrut"]), arms))
        if k == "for":
            return bump(_seq(self.out(n["iter"]), lambda: _loop(self.out(n["body"]), n["loop_id"], False)))
        if k == "loop":
            return bump(_loop(self.out(n["body"]), n["loop_id"], True))
        if k == "closure":
            return {(FALL, hit)}
        if k == "break":
            o = self.out(n["v"])
            return _seq(o, lambda: {(("break", n["label"]), 0)})
        if k == "continue":
            return {(("continue", n["label"]), 0)}
        if k == "ret":
            o = self.out(n["v"])
            return _seq(o, lambda: {(("return",), 0)})
        if k == "bin" and n["op"] in ("And", "Or"):
            return bump(_seq(self.out(n["l"]), lambda: self.out(n["r"]) | {(FALL, 0)}))
        if k in ("mcall", "call"):
            kids = children(n)
            plain = [x for x in kids if strip(x) is None or strip(x).get("k") != "closure"]
            clos = [strip(x) for x in kids if strip(x) is not None and strip(x).get("k") == "closure"]
            o = self.seq_nodes(plain)
            for cl in clos:
                # closure passed to a call: body may run 0..n times; `return` inside acts as `continue`
                def run(cl=cl):
                    b = self.out(cl["body"])
                    b = {((("continue", ("cl", cl["id"])) if kk == ("return",) else kk), c) for (kk, c) in b}
                    return _loop(b, ("cl", cl["id"]), False)
                o = _seq(o, run)
            if self.diverges(n):
                return set()
            return bump(o)
        if self.diverges(n) and k not in ("blk", "block"):
            # evaluate children first (they may exit), the node itself never falls through
            o = self.seq_nodes(children(n))
            return {(kk, c) for (kk, c) in o if kk != FALL}
        return bump(self.seq_nodes(children(n)))


def outcomes(crate, node, pred):
    return Paths(crate, pred).out(node)


def count_range(outs, kinds=None):
    cs = [c for (k, c) in outs if kinds is None or k in kinds]
    return (min(cs), max(cs)) if cs else None


# ---------------------------------------------------------------------------
# traversals of a collection field

FULL_TRAVERSAL_METHODS = {"iter", "iter_mut", "into_iter", "rev"}


def _base_field(n):
    """`self.layers`-like base of an iterator chain: returns (field_name, chain_methods) or None."""
    chain = []
    n = strip(n)
    while n is not None and n.get("k") == "mcall":
        chain.append(n["name"])
        n = strip(n["recv"])
    if n is not None and n.get("k") == "field":
        b = strip(n["b"])
        if b is not None and b.get("k") == "local" and b["name"] == "self":
            return n["f"], list(reversed(chain))
    return None


def traversal(n):
    """Recognise `for p in &mut self.F {..}` / `self.F.iter_mut().for_each(|p| ..)`.

    Returns dict(field, methods, pat, body, loop_id, kind, node) or None."""
    if n is None:
        return None
    k = n.get("k")
    if k == "for":
        bf = _base_field(n["iter"])
        if bf:
            return dict(field=bf[0], methods=bf[1], pat=n["pat"], body=n["body"], loop_id=n["loop_id"],
                        kind="for", node=n)
    if k == "mcall" and n["name"] == "for_each" and len(n["args"]) == 1:
        cl = strip(n["args"][0])
        bf = _base_field(n["recv"])
        if bf and cl is not None and cl.get("k") == "closure" and len(cl["params"]) == 1:
            return dict(field=bf[0], methods=bf[1], pat=cl["params"][0], body=cl["body"],
                        loop_id=("cl", cl["id"]), kind="for_each", node=n)
    return None


def is_full_traversal(t):
    return all(m in FULL_TRAVERSAL_METHODS for m in t["methods"])


def find_match_on(body, hid):
    """The `match <local hid> {..}` directly forming the body (through transparent blocks)."""
    n = strip(body)
    while n is not None and n.get("k") == "blk" and not n["b"]["stmts"]:
        n = strip(n["b"]["tail"])
    if n is not None and n.get("k") == "blk" and len(n["b"]["stmts"]) == 1 and n["b"]["tail"] is None:
        n = strip(n["b"]["stmts"][0])
    if n is not None and n.get("k") == "match":
        s = strip(n["scrut"])
        if s is not None and s.get("k") == "local" and s["hid"] == hid:
            return n
    return None


def arm_variant(arm):
    """(variant path, [binding (name,hid)...]) of a match arm pattern, '_' for wildcard."""
    p = arm["pat"]
    while p.get("k") in ("ref", "deref"):
        p = p["p"]
    k = p.get("k")
    if k == "tstruct":
        return p["path"], pat_binds(p)
    if k == "ppath":
        return p["path"], []
    if k == "struct":
        return p["path"], pat_binds(p)
    if k == "wild":
        return "_", []
    if k == "bind":
        return "_", pat_binds(p)
    if k == "or":
        return "|".join(arm_variant({"pat": q})[0] for q in p["ps"]), pat_binds(p)
    return "?", []


def is_field_assign(n, hid, field):
    """`<local hid>.field = rhs` (through derefs); returns rhs or None."""
    if n.get("k") != "assign":
        return None
    l = strip(n["l"])
    if l is None or l.get("k") != "field" or l["f"] != field:
        return None
    b = strip(l["b"])
    if b is not None and b.get("k") == "local" and b["hid"] == hid:
        return n["r"]
    return None


def lit_value(n):
    n = strip(n)
    if n is not None and n.get("k") == "lit":
        return n["v"]
    return None


def local_hid(n):
    n = strip(n)
    if n is not None and n.get("k") == "local":
        return n["hid"]
    return None
