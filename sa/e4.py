"""E4: control-flow / typestate / effect helpers over the HIR mirror and MIR facts.

`outcomes(node, pred)` is a small abstract path enumeration: it returns the set of
(exit_kind, hits) pairs with which control can leave `node`, where hits (capped at 2)
counts how many nodes satisfying `pred` were evaluated on the way.  Diverging code
(panic!/unimplemented!, type `!`) produces no outcome.  It is path-insensitive
(every branch is considered feasible), which is the conservative direction for
"on every path" obligations.
"""
from .hir import children, strip, walk, pretty, pat_binds

CAP = 2
FALL = ("fall",)


def _seq(a, b_fn):
    """Compose: outcomes a, then (for the falling ones) outcomes b_fn()."""
    out = set()
    falls = [c for (k, c) in a if k == FALL]
    out |= {(k, c) for (k, c) in a if k != FALL}
    if falls:
        b = b_fn()
        for ca in set(falls):
            for (k, cb) in b:
                out.add((k, min(CAP, ca + cb)))
    return out


def _loop(body_out, loop_id, infinite):
    F = {c for (k, c) in body_out if k == FALL or k == ("continue", loop_id)}
    X = {c for (k, c) in body_out if k == ("break", loop_id)}
    E = {(k, c) for (k, c) in body_out if k != FALL and k not in (("continue", loop_id), ("break", loop_id))}
    S = {0}
    changed = True
    while changed:
        changed = False
        for s in list(S):
            for f in F:
                v = min(CAP, s + f)
                if v not in S:
                    S.add(v)
                    changed = True
    out = set()
    if not infinite:
        out |= {(FALL, s) for s in S}
    for s in S:
        for x in X:
            out.add((FALL, min(CAP, s + x)))
        for (k, c) in E:
            out.add((k, min(CAP, s + c)))
    return out


class Paths:
    def __init__(self, crate, pred):
        self.c = crate
        self.pred = pred

    def diverges(self, n):
        k = n.get("k")
        if k in ("break", "continue", "ret"):
            return False
        return self.c.ty(n) == "!" if "t" in n else False

    def seq_nodes(self, nodes):
        out = {(FALL, 0)}
        for n in nodes:
            out = _seq(out, lambda n=n: self.out(n))
            if not out:
                break
        return out

    def out(self, n):
        if n is None:
            return {(FALL, 0)}
        k = n.get("k")
        hit = 1 if self.pred(n) else 0

        def bump(o):
            return {(kk, min(CAP, c + hit)) for (kk, c) in o} if hit else o

        if k == "block":
            nodes = list(n["stmts"])
            if n["tail"] is not None:
                nodes.append(n["tail"])
            return bump(self.seq_nodes(nodes))
        if k == "blk":
            o = self.out(n["b"])
            if n.get("lbl") is not None:   # inlined helper: its `return` became a break to this label
                o = {((FALL if kk == ("break", n["lbl"]) else kk), c) for (kk, c) in o}
            return bump(o)
        if k == "let":
            o = self.out(n["init"])
            if n.get("els") is not None:
                o = _seq(o, lambda: {(FALL, 0)} | self.out(n["els"]))
            return bump(o)
        if k == "if":
            o = _seq(self.out(n["c"]), lambda: self.out(n["th"]) | (self.out(n["el"]) if n["el"] is not None else {(FALL, 0)}))
            return bump(o)
        if k == "match":
            def arms():
                r = set()
                for a in n["arms"]:
                    if a["guard"] is not None:
                        r |= _seq(self.out(a["guard"]), lambda a=a: self.out(a["body"]) | {(FALL, 0)})
                    else:
                        r |= self.out(a["body"])
                return r
            return bump(_seq(self.out(n["scrut"]), arms))
        if k == "for":
            return bump(_seq(self.out(n["iter"]), lambda: _loop(self.out(n["body"]), n["loop_id"], False)))
        if k == "loop":
            return bump(_loop(self.out(n["body"]), n["loop_id"], True))
        if k == "closure":
            return {(FALL, hit)}
        if k == "break":
            o = self.out(n["v"])
            return _seq(o, lambda: {(("break", n["label"]), 0)})
        if k == "continue":
            return {(("continue", n["label"]), 0)}
        if k == "ret":
            o = self.out(n["v"])
            return _seq(o, lambda: {(("return",), 0)})
        if k == "bin" and n["op"] in ("And", "Or"):
            return bump(_seq(self.out(n["l"]), lambda: self.out(n["r"]) | {(FALL, 0)}))
        if k in ("mcall", "call"):
            kids = children(n)
            plain = [x for x in kids if strip(x) is None or strip(x).get("k") != "closure"]
            clos = [strip(x) for x in kids if strip(x) is not None and strip(x).get("k") == "closure"]
            o = self.seq_nodes(plain)
            for cl in clos:
                # closure passed to a call: body may run 0..n times; `return` inside acts as `continue`
                def run(cl=cl):
                    b = self.out(cl["body"])
                    b = {((("continue", ("cl", cl["id"])) if kk == ("return",) else kk), c) for (kk, c) in b}
                    return _loop(b, ("cl", cl["id"]), False)
                o = _seq(o, run)
            if self.diverges(n):
                return set()
            return bump(o)
        if self.diverges(n) and k not in ("blk", "block"):
            # evaluate children first (they may exit), the node itself never falls through
            o = self.seq_nodes(children(n))
            return {(kk, c) for (kk, c) in o if kk != FALL}
        return bump(self.seq_nodes(children(n)))


def outcomes(crate, node, pred):
    return Paths(crate, pred).out(node)


def count_range(outs, kinds=None):
    cs = [c for (k, c) in outs if kinds is None or k in kinds]
    return (min(cs), max(cs)) if cs else None


# ---------------------------------------------------------------------------
# traversals of a collection field

FULL_TRAVERSAL_METHODS = {"iter", "iter_mut", "into_iter", "rev"}


def _base_field(n):
    """`self.layers`-like base of an iterator chain: returns (field_name, chain_methods) or None."""
    chain = []
    n = strip(n)
    while n is not None and n.get("k") == "mcall":
        chain.append(n["name"])
        n = strip(n["recv"])
    if n is not None and n.get("k") == "field":
        b = strip(n["b"])
        if b is not None and b.get("k") == "local" and b["name"] == "self":
            return n["f"], list(reversed(chain))
    return None


def traversal(n):
    """Recognise `for p in &mut self.F {..}` / `self.F.iter_mut().for_each(|p| ..)`.

    Returns dict(field, methods, pat, body, loop_id, kind, node) or None."""
    if n is None:
        return None
    k = n.get("k")
    if k == "blk":
        # a block holding exactly one statement (e.g. an inlined helper whose body is the loop)
        inner = list(n["b"]["stmts"]) + ([n["b"]["tail"]] if n["b"]["tail"] is not None else [])
        inner = [x for x in inner if not (x.get("k") == "let" and x.get("init") is not None and x["init"].get("k") in ("local", "lit", "ref"))]
        if len(inner) == 1:
            return traversal(inner[0])
        return None
    if k == "for":
        bf = _base_field(n["iter"])
        if bf:
            return dict(field=bf[0], methods=bf[1], pat=n["pat"], body=n["body"], loop_id=n["loop_id"],
                        kind="for", node=n)
    if k == "mcall" and n["name"] == "for_each" and len(n["args"]) == 1:
        cl = strip(n["args"][0])
        bf = _base_field(n["recv"])
        if bf and cl is not None and cl.get("k") == "closure" and len(cl["params"]) == 1:
            return dict(field=bf[0], methods=bf[1], pat=cl["params"][0], body=cl["body"],
                        loop_id=("cl", cl["id"]), kind="for_each", node=n)
    return None


def is_full_traversal(t):
    return all(m in FULL_TRAVERSAL_METHODS for m in t["methods"])


def find_match_on(body, hid):
    """The `match <local hid> {..}` directly forming the body (through transparent blocks)."""
    n = strip(body)
    while n is not None and n.get("k") == "blk" and not n["b"]["stmts"]:
        n = strip(n["b"]["tail"])
    if n is not None and n.get("k") == "blk" and len(n["b"]["stmts"]) == 1 and n["b"]["tail"] is None:
        n = strip(n["b"]["stmts"][0])
    if n is not None and n.get("k") == "match":
        s = strip(n["scrut"])
        if s is not None and s.get("k") == "local" and s["hid"] == hid:
            return n
    return None


def arm_variant(arm):
    """(variant path, [binding (name,hid)...]) of a match arm pattern, '_' for wildcard."""
    p = arm["pat"]
    while p.get("k") in ("ref", "deref"):
        p = p["p"]
    k = p.get("k")
    if k == "tstruct":
        return p["path"], pat_binds(p)
    if k == "ppath":
        return p["path"], []
    if k == "struct":
        return p["path"], pat_binds(p)
    if k == "wild":
        return "_", []
    if k == "bind":
        return "_", pat_binds(p)
    if k == "or":
        return "|".join(arm_variant({"pat": q})[0] for q in p["ps"]), pat_binds(p)
    return "?", []


def is_field_assign(n, hid, field):
    """`<local hid>.field = rhs` (through derefs); returns rhs or None."""
    if n.get("k") != "assign":
        return None
    l = strip(n["l"])
    if l is None or l.get("k") != "field" or l["f"] != field:
        return None
    b = strip(l["b"])
    if b is not None and b.get("k") == "local" and b["hid"] == hid:
        return n["r"]
    return None


def lit_value(n):
    n = strip(n)
    if n is not None and n.get("k") == "lit":
        return n["v"]
    return None


def local_hid(n):
    n = strip(n)
    if n is not None and n.get("k") == "local":
        return n["hid"]
    return None


# ---------------------------------------------------------------------------
# path conditions: what must have been decided for control to reach a node

NEG = {"Gt": "Le", "Ge": "Lt", "Lt": "Ge", "Le": "Gt", "Eq": "Ne", "Ne": "Eq"}


def negate(cn):
    """structural negation of a condition node, or None when it has no simple form."""
    cn = strip(cn)
    if cn is None:
        return None
    if cn.get("k") == "un" and cn["op"] == "Not":
        return strip(cn["x"])
    if cn.get("k") == "bin" and cn["op"] in NEG and False:
        return None
    if cn.get("k") == "bin" and cn["op"] in NEG:
        d = dict(cn)
        d["op"] = NEG[cn["op"]]
        d["negated_int_cmp"] = True   # exact for integers only (NaN-free); callers check operand types
        return d
    return None


def path_conditions(crate, root, target):
    """Conditions under which `target` is reached inside `root`, outermost / earliest first.

    Each item: dict(c=<condition node>, pol=True|False, node=<the if / guard statement>, kind='if'|'guard').
    Besides the enclosing `if`s (branch taken = polarity) this includes *guard clauses*: an earlier sibling
    statement `if c { <never falls through> }` contributes (c, False); `if c {..} else { <never falls through> }`
    contributes (c, True); `let p = match e { pat => v, _ => <diverges> }` and `let pat = e else { <diverges> }`
    contribute a synthetic `let pat = e` condition with polarity True.  "Never falls through" is decided by
    the abstract path enumeration (every outcome is break/continue/return, or there is none: panic)."""
    P = Paths(crate, lambda n: False)
    chain = []

    def find(n):
        if n is target:
            chain.append(n)
            return True
        if n is None:
            return False
        for ch in children(n):
            if ch is not None and find(ch):
                chain.append(n)
                return True
        return False
    if not find(root):
        return None
    chain.reverse()
    out = []

    def exits(n):
        o = P.out(n)
        return all(k != FALL for (k, _) in o)

    def guards_of_stmt(s0):
        s = strip(s0)
        if s is None:
            return
        if s.get("k") == "blk":
            for s2 in s["b"]["stmts"]:
                guards_of_stmt(s2)
            if s["b"]["tail"] is not None:
                guards_of_stmt(s["b"]["tail"])
            return
        if s.get("k") == "if":
            th_ex = exits(s["th"])
            el_ex = s["el"] is not None and exits(s["el"])
            if th_ex and not el_ex:
                out.append(dict(c=s["c"], pol=False, node=s, kind="guard", panics=not P.out(s["th"])))
                if s["el"] is not None:      # `else if` chains: what is known once the else branch completes
                    guards_of_stmt(s["el"])
            elif el_ex and not th_ex:
                out.append(dict(c=s["c"], pol=True, node=s, kind="guard", panics=not P.out(s["el"])))
                guards_of_stmt(s["th"])
            return
        if s.get("k") == "let":
            init = strip(s.get("init"))
            if s.get("els") is not None and exits(s["els"]):
                out.append(dict(c={"k": "letx", "pat": s["pat"], "init": s["init"]}, pol=True, node=s, kind="guard", panics=not P.out(s["els"])))
                return
            if init is not None and init.get("k") == "match":
                live = [a for a in init["arms"] if not exits(a["body"])]
                if len(live) == 1 and len(init["arms"]) > 1 and live[0].get("guard") is None:
                    pat = live[0]["pat"]
                    b = strip(live[0]["body"])
                    binds = pat_binds(pat)
                    lp = s["pat"]
                    # `Some(v) => v` bound by a plain `let x`: the value of x is the payload
                    if b is not None and b.get("k") == "local" and lp.get("k") == "bind" and len(binds) == 1 and b["hid"] == binds[0][1]:
                        import copy
                        pat = copy.deepcopy(pat)
                        for q in _pat_walk(pat):
                            if q.get("k") == "bind" and q["hid"] == binds[0][1]:
                                q["hid"] = lp["hid"]
                                q["name"] = lp["name"]
                    dead = [a for a in init["arms"] if a is not live[0]]
                    out.append(dict(c={"k": "letx", "pat": pat, "init": init["scrut"]}, pol=True, node=s, kind="guard", panics=all(not P.out(a["body"]) for a in dead)))

    for i, n in enumerate(chain[:-1]):
        nxt = chain[i + 1]
        k = n.get("k")
        if k == "block":
            for s in n["stmts"]:
                if s is nxt:
                    break
                guards_of_stmt(s)
        elif k is None and "pat" in n and "body" in n and n.get("guard") is not None and nxt is n["body"]:
            out.append(dict(c=n["guard"], pol=True, node=n, kind="if"))      # `PAT if guard => body`
        elif k == "if":
            if nxt is n["th"]:
                out.append(dict(c=n["c"], pol=True, node=n, kind="if"))
            elif n["el"] is not None and nxt is n["el"]:
                out.append(dict(c=n["c"], pol=False, node=n, kind="if"))
    return out


def _pat_walk(p):
    if p is None:
        return
    yield p
    k = p.get("k")
    if k == "bind" and p.get("sub"):
        yield from _pat_walk(p["sub"])
    elif k in ("tuple", "tstruct", "or"):
        for q in p["ps"]:
            yield from _pat_walk(q)
    elif k == "struct":
        for _, q in p["fs"]:
            yield from _pat_walk(q)
    elif k in ("ref", "deref"):
        yield from _pat_walk(p["p"])


def atoms_of(pcs):
    """flatten path conditions into (atom node, polarity): strips `!`, splits `a || b` known false and `a && b` known true."""
    out = []

    def rec(cn, pol, item):
        cn = strip(cn)
        if cn is None:
            return
        if cn.get("k") == "un" and cn["op"] == "Not":
            return rec(cn["x"], not pol, item)
        if cn.get("k") == "bin" and ((cn["op"] == "Or" and not pol) or (cn["op"] == "And" and pol)):
            rec(cn["l"], pol, item)
            rec(cn["r"], pol, item)
            return
        out.append((cn, pol, item))
    for it in pcs or []:
        rec(it["c"], it["pol"], it)
    return out
