"""Pre-pass: inline private helper functions that do not exist on the pinned tree.

Rules are anchored in the functions the properties name (Network::forward, Feedback::create ...).  Moving a
block of such a function verbatim into a new private helper leaves behaviour unchanged, but would hide the
block from a rule that inspects the anchored body.  This pass splices the body of every *new* (not in
`pinned_fns.json`), non-public, non-recursive function back into its call sites in the HIR mirror:

    helper(a0, a1)   ==>   { let p0 = a0; let p1 = a1; <body> }

with the parameter substituted directly when the argument is a side-effect-free place expression.  Local ids
of the copy are shifted so they cannot collide with the caller's.  A `return` inside the helper becomes a
`break` out of a labelled block (`lbl`).  The MIR facts of an inlined helper (field writes, calls, mutable
borrows) are re-attributed to each caller.  Inlining is semantics preserving, so verdicts on the result are
verdicts on the program; a helper that cannot be inlined (recursive, unsupported parameter pattern) is left
alone and the rules see a call, exactly as without this pass.
"""
import copy
import json
import os

PINNED = os.path.join(os.path.dirname(os.path.abspath(__file__)), "pinned_fns.json")
PINNED_PRIVATE = os.path.join(os.path.dirname(os.path.abspath(__file__)), "pinned_private.json")
STRIDE = 1000000
_ID_KEYS = ("hid", "loop_id", "label", "id")


def _load():
    try:
        with open(PINNED) as fh:
            return set(json.load(fh))
    except OSError:
        return None


def _walk(n):
    stack = [n]
    while stack:
        x = stack.pop()
        if isinstance(x, dict):
            yield x
            stack.extend(x.values())
        elif isinstance(x, list):
            stack.extend(x)


def _callee(n):
    c = n.get("callee")
    if not c:
        return None
    return c[5:] if c.startswith("Self:") else c


def _pure_place(n, depth=0):
    """side-effect-free, cheap expression that may be duplicated: locals, fields, indices by such, refs, literals."""
    if n is None or depth > 6:
        return False
    k = n.get("k")
    if k in ("local", "lit", "path"):
        return True
    if k == "field":
        return _pure_place(n["b"], depth + 1)
    if k == "index":
        return _pure_place(n["b"], depth + 1) and _pure_place(n["i"], depth + 1)
    if k == "ref":
        return _pure_place(n["x"], depth + 1)
    if k == "un" and n.get("op") == "Deref":
        return _pure_place(n["x"], depth + 1)
    if k == "blk" and not n["b"]["stmts"] and n["b"]["tail"] is not None:
        return _pure_place(n["b"]["tail"], depth + 1)
    return False


def _plain_bind(p):
    while p is not None and p.get("k") in ("ref", "deref"):
        p = p["p"]
    return p if p is not None and p.get("k") == "bind" and not p.get("sub") else None


def _shift(n, off):
    for x in _walk(n):
        for key in _ID_KEYS:
            v = x.get(key)
            if isinstance(v, int) and not isinstance(v, bool):
                x[key] = v + off


def _subst(n, mapping):
    """replace `local` nodes whose hid is in mapping by a copy of the mapped expression (in place, returns node)."""
    if isinstance(n, dict):
        if n.get("k") == "local" and n.get("hid") in mapping:
            return copy.deepcopy(mapping[n["hid"]])
        for key, v in list(n.items()):
            if isinstance(v, (dict, list)):
                n[key] = _subst(v, mapping)
        return n
    if isinstance(n, list):
        return [_subst(v, mapping) for v in n]
    return n


def _assigned(body, hid):
    """is local `hid` assigned / mutably borrowed as a whole in body (then it cannot be substituted)?"""
    for x in _walk(body):
        k = x.get("k")
        if k in ("assign", "assignop"):
            l = x["l"]
            while l is not None and l.get("k") in ("blk",) and not l["b"]["stmts"]:
                l = l["b"]["tail"]
            if l is not None and l.get("k") == "local" and l.get("hid") == hid:
                return True
    return False


def _expand(call, helper, site):
    """block node equivalent to the call, or None."""
    k = call.get("k")
    args = ([call["recv"]] if k == "mcall" else []) + list(call["args"])
    params = helper.get("params") or []
    if len(args) != len(params) or helper.get("body") is None:
        return None
    body = copy.deepcopy(helper["body"])
    params = copy.deepcopy(params)
    off = STRIDE * site
    _shift(body, off)
    _shift(params, off)
    mapping = {}
    lets = []
    for p, a in zip(params, args):
        b = _plain_bind(p)
        if b is None:
            if p.get("k") == "wild":
                continue
            lets.append({"k": "let", "pat": p, "init": copy.deepcopy(a), "els": None, "line": call.get("line")})
            continue
        if _pure_place(a) and not _assigned(body, b["hid"]) and "Mut" not in str(b.get("mode", "")).split(",")[-1]:
            mapping[b["hid"]] = a
        elif _pure_place(a) and not _assigned(body, b["hid"]):
            mapping[b["hid"]] = a
        else:
            lets.append({"k": "let", "pat": b, "init": copy.deepcopy(a), "els": None, "line": call.get("line")})
    body = _subst(body, mapping)
    has_ret = any(x.get("k") == "ret" for x in _walk(body))
    lbl = None
    if has_ret:
        lbl = off + 999999
        for x in _walk(body):
            if x.get("k") == "ret":
                x["k"] = "break"
                x["label"] = lbl
                x["from_ret"] = True
    # body is a `blk`/`block` expression
    inner = body
    if inner.get("k") == "blk":
        blockn = inner["b"]
    elif inner.get("k") == "block":
        blockn = inner
    else:
        blockn = {"k": "block", "stmts": [], "tail": inner}
    blockn = {"k": "block", "stmts": lets + list(blockn["stmts"]), "tail": blockn["tail"]}
    out = {"k": "blk", "b": blockn, "inlined": helper["path"], "line": call.get("line")}
    if lbl is not None:
        out["lbl"] = lbl
    for key in ("t", "ta"):
        if key in call:
            out[key] = call[key]
    return out


def _replace_calls(n, targets, fns, counter, done):
    """rewrite call nodes to `targets` below n; returns new node."""
    if isinstance(n, list):
        return [_replace_calls(v, targets, fns, counter, done) for v in n]
    if not isinstance(n, dict):
        return n
    for key, v in list(n.items()):
        if isinstance(v, (dict, list)):
            n[key] = _replace_calls(v, targets, fns, counter, done)
    if n.get("k") in ("call", "mcall"):
        c = _callee(n)
        if c in targets:
            counter[0] += 1
            e = _expand(n, fns[c], counter[0])
            if e is not None:
                done.setdefault(c, 0)
                done[c] += 1
                return e
            done.setdefault("!" + c, 0)
    return n


def rename_private(facts):
    """A non-public function of the pinned tree that is missing, while exactly one new non-public function of the same `impl` has exactly its
    signature (and no other missing function shares that signature), was renamed: it gets its pinned name back (body, call sites and MIR facts).
    No property is about the name of a private function; the rules anchor on the pinned names."""
    try:
        with open(PINNED_PRIVATE) as fh:
            priv = json.load(fh)
    except OSError:
        return []
    pinned = _load() or set()
    fns = facts["fns"]
    missing = [p for p in priv if p not in fns]
    if not missing:
        return []
    new = [p for p, f in fns.items() if p not in pinned and f.get("vis") != "Public" and not p.startswith("<") and f.get("body") is not None]

    def sig(d):
        return (tuple(d.get("inputs") or ()), d.get("output"), d.get("kind"))
    renames = {}
    for m in missing:
        owner = m.rsplit("::", 1)[0]
        same_sig_missing = [x for x in missing if x.rsplit("::", 1)[0] == owner and sig(priv[x]) == sig(priv[m])]
        cands = [n for n in new if n.rsplit("::", 1)[0] == owner and sig(fns[n]) == sig(priv[m])]
        if len(same_sig_missing) == 1 and len(cands) == 1:
            renames[cands[0]] = m
    if not renames:
        return []
    for old_p, new_p in renames.items():
        f = fns.pop(old_p)
        f["path"] = new_p
        f["renamed_from"] = old_p
        fns[new_p] = f
    for f in fns.values():
        for x in _walk(f.get("body")):
            c = x.get("callee")
            if isinstance(c, str):
                base = c[5:] if c.startswith("Self:") else c
                if base in renames:
                    x["callee"] = ("Self:" if c.startswith("Self:") else "") + renames[base]
            d = x.get("def")
            if isinstance(d, str) and d in renames:
                x["def"] = renames[d]
    mir = facts.get("mir", {})
    for key in list(mir.keys()):
        v = mir[key]
        if v.get("parent") in renames:
            v["parent"] = renames[v["parent"]]
        for cl in v.get("facts", {}).get("calls", []):
            if cl.get("callee") in renames:
                cl["callee"] = renames[cl["callee"]]
        if key in renames:
            mir[renames[key]] = mir.pop(key)
        else:
            for o_, n_ in renames.items():
                if key.startswith(o_ + "::"):
                    mir[n_ + key[len(o_):]] = mir.pop(key)
                    break
    facts["_renamed_fns"] = [{"from": o_, "to": n_} for o_, n_ in sorted(renames.items())]
    return facts["_renamed_fns"]


def inline_new_helpers(facts):
    pinned = _load()
    facts["_inlined"] = []
    if pinned is None:
        return 0
    rename_private(facts)
    fns = facts["fns"]
    new = [p for p, f in fns.items() if p not in pinned and f.get("body") is not None
           and f.get("kind") in ("Fn", "AssocFn") and not p.startswith("<")]
    if not new:
        return 0
    # drop recursive helpers
    targets = set()
    for p in new:
        if not any(_callee(x) == p for x in _walk(fns[p]["body"]) if x.get("k") in ("call", "mcall")):
            targets.add(p)
    total = 0
    counter = [0]
    callers = {}
    for _round in range(4):
        done = {}
        for path, f in fns.items():
            if f.get("body") is None:
                continue
            before = dict(done)
            f["body"] = _replace_calls(f["body"], targets, fns, counter, done)
            for c, k in done.items():
                if not c.startswith("!") and k != before.get(c, 0):
                    callers.setdefault(c, set()).add(path)
        n = sum(v for c, v in done.items() if not c.startswith("!"))
        total += n
        if n == 0:
            break
    # helpers whose every call site was inlined disappear; their MIR facts move to the callers
    remaining = {}
    for path, f in fns.items():
        if f.get("body") is None:
            continue
        for x in _walk(f["body"]):
            if x.get("k") in ("call", "mcall") and _callee(x) in targets:
                remaining[_callee(x)] = remaining.get(_callee(x), 0) + 1
    mir = facts.get("mir", {})
    for h in sorted(targets):
        if h in callers and h not in remaining:
            # transitive: a helper inlined into another helper is attributed to that helper's callers
            roots = set()
            todo = list(callers[h])
            seen = set()
            while todo:
                c = todo.pop()
                if c in seen:
                    continue
                seen.add(c)
                if c in targets and c in callers and c not in remaining:
                    todo.extend(callers[c])
                else:
                    roots.add(c)
            for key in [k for k, v in mir.items() if v.get("parent") == h]:
                v = mir.pop(key)
                for r in sorted(roots):
                    v2 = copy.deepcopy(v)
                    v2["parent"] = r
                    v2["inlined_from"] = h
                    mir["%s@%s" % (key, r)] = v2
            facts["_inlined"].append({"helper": h, "into": sorted(roots)})
    for h in [x["helper"] for x in facts["_inlined"]]:
        if fns[h].get("vis") != "Public":
            fns.pop(h, None)
    return total
