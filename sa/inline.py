"""Pre-pass: inline private helper functions that do not exist on the pinned tree.

Rules are anchored in the functions the properties name (Network::forward, Feedback::create ...).  Moving a
block of such a function verbatim into a new private helper leaves behaviour unchanged, but would hide the
block from a rule that inspects the anchored body.  This pass splices the body of every *new* (not in
`pinned_fns.json`), non-public, non-recursive function back into its call sites in the HIR mirror:

    helper(a0, a1)   ==>   { let p0 = a0; let p1 = a1; <body> }

with the parameter substituted directly when the argument is a side-effect-free place expression.  Local ids
of the copy are shifted so they cannot collide with the caller's.  A `return` inside the helper becomes a
`break` out of a labelled block (`lbl`).  The MIR facts of an inlined helper (field writes, calls, mutable
borrows) are re-attributed to each caller.  Inlining is semantics preserving, so verdicts on the result are
verdicts on the program; a helper that cannot be inlined (recursive, unsupported parameter pattern) is left
alone and the rules see a call, exactly as without this pass.
"""
import copy
import json
import os

PINNED = os.path.join(os.path.dirname(os.path.abspath(__file__)), "pinned_fns.json")
PINNED_PRIVATE = os.path.join(os.path.dirname(os.path.abspath(__file__)), "pinned_private.json")
STRIDE = 1000000
_ID_KEYS = ("hid", "loop_id", "label", "id")


def _load():
    try:
        with open(PINNED) as fh:
            return set(json.load(fh))
    except OSError:
        return None


def _walk(n):
    stack = [n]
    while stack:
        x = stack.pop()
        if isinstance(x, dict):
            yield x
            stack.extend(x.values())
        elif isinstance(x, list):
            stack.extend(x)


def _callee(n):
    c = n.get("callee")
    if not c:
        return None
    return c[5:] if c.startswith("Self:") else c


def _pure_place(n, depth=0):
    """side-effect-free, cheap expression that may be duplicated: locals, fields, indices by such, refs, literals."""
    if n is None or depth > 6:
        return False
    k = n.get("k")
    if k in ("local", "lit", "path"):
        return True
    if k == "field":
        return _pure_place(n["b"], depth + 1)
    if k == "index":
        return _pure_place(n["b"], depth + 1) and (_pure_place(n["i"], depth + 1) or _index_arith(n["i"]))
    if k == "ref":
        return _pure_place(n["x"], depth + 1)
    if k == "un" and n.get("op") == "Deref":
        return _pure_place(n["x"], depth + 1)
    if k == "blk" and not n["b"]["stmts"] and n["b"]["tail"] is not None:
        return _pure_place(n["b"]["tail"], depth + 1)
    return False


def _index_arith(n, depth=0):
    while n is not None and n.get("k") == "blk" and not n["b"]["stmts"] and n["b"]["tail"] is not None:
        n = n["b"]["tail"]
    if n is None or depth > 4:
        return False
    if n.get("k") in ("local", "lit"):
        return True
    if n.get("k") == "bin" and n.get("op") in ("Add", "Sub", "Mul"):
        return _index_arith(n["l"], depth + 1) and _index_arith(n["r"], depth + 1)
    return False


def _plain_bind(p):
    while p is not None and p.get("k") in ("ref", "deref"):
        p = p["p"]
    return p if p is not None and p.get("k") == "bind" and not p.get("sub") else None


def _shift(n, off):
    for x in _walk(n):
        for key in _ID_KEYS:
            v = x.get(key)
            if isinstance(v, int) and not isinstance(v, bool):
                x[key] = v + off


def _subst(n, mapping):
    """replace `local` nodes whose hid is in mapping by a copy of the mapped expression (in place, returns node)."""
    if isinstance(n, dict):
        if n.get("k") == "local" and n.get("hid") in mapping:
            return copy.deepcopy(mapping[n["hid"]])
        for key, v in list(n.items()):
            if isinstance(v, (dict, list)):
                n[key] = _subst(v, mapping)
        return n
    if isinstance(n, list):
        return [_subst(v, mapping) for v in n]
    return n


def _assigned(body, hid):
    """is local `hid` assigned / mutably borrowed as a whole in body (then it cannot be substituted)?"""
    for x in _walk(body):
        k = x.get("k")
        if k in ("assign", "assignop"):
            l = x["l"]
            while l is not None and l.get("k") in ("blk",) and not l["b"]["stmts"]:
                l = l["b"]["tail"]
            if l is not None and l.get("k") == "local" and l.get("hid") == hid:
                return True
    return False


def _expand(call, helper, site):
    """block node equivalent to the call, or None."""
    k = call.get("k")
    args = ([call["recv"]] if k == "mcall" else []) + list(call["args"])
    params = helper.get("params") or []
    if len(args) != len(params) or helper.get("body") is None:
        return None
    body = copy.deepcopy(helper["body"])
    params = copy.deepcopy(params)
    off = STRIDE * site
    # locals bound inside the helper get fresh ids; locals it captures (a closure used as a local function) keep theirs
    bound = set()
    for x in list(_walk(params)) + list(_walk(body)):
        if x.get("k") == "bind" and isinstance(x.get("hid"), int):
            bound.add(x["hid"])
    free = {x["hid"] for x in _walk(body) if x.get("k") == "local" and isinstance(x.get("hid"), int) and x["hid"] not in bound}
    _shift(body, off)
    _shift(params, off)
    if free:
        for x in _walk(body):
            if x.get("k") == "local" and isinstance(x.get("hid"), int) and (x["hid"] - off) in free:
                x["hid"] -= off
    mapping = {}
    lets = []
    for p, a in zip(params, args):
        b = _plain_bind(p)
        if b is None:
            if p.get("k") == "wild":
                continue
            lets.append({"k": "let", "pat": p, "init": copy.deepcopy(a), "els": None, "line": call.get("line")})
            continue
        if _pure_place(a) and not _assigned(body, b["hid"]) and "Mut" not in str(b.get("mode", "")).split(",")[-1]:
            mapping[b["hid"]] = a
        elif _pure_place(a) and not _assigned(body, b["hid"]):
            mapping[b["hid"]] = a
        else:
            lets.append({"k": "let", "pat": b, "init": copy.deepcopy(a), "els": None, "line": call.get("line")})
    body = _subst(body, mapping)
    # `(&f)(v)` / `(*f)(v)`: a call through a reference to a callable is a call of the callable
    for x in _walk(body):
        if x.get("k") == "call" and str(x.get("callee", "")).startswith("local:") and isinstance(x.get("f"), dict):
            f0 = x["f"]
            while f0 is not None and (f0.get("k") == "ref" or (f0.get("k") == "un" and f0.get("op") == "Deref") or
                                      (f0.get("k") == "blk" and not f0["b"]["stmts"] and f0["b"].get("tail") is not None)):
                f0 = f0["x"] if f0["k"] != "blk" else f0["b"]["tail"]
            if f0 is not None and f0 is not x["f"] and f0.get("k") in ("local", "path"):
                x["f"] = f0
                if f0.get("k") == "local":
                    x["callee"] = "local:" + str(f0.get("name"))
    # a function item passed as an argument and called through the parameter: the call now names the function itself
    for x in _walk(body):
        if x.get("k") == "call" and str(x.get("callee", "")).startswith("local:") and isinstance(x.get("f"), dict) and x["f"].get("k") == "path" \
                and isinstance(x["f"].get("def"), str) and "::" in x["f"]["def"]:
            d = x["f"]["def"]
            if any(m_ in d for m_ in ("<impl f32>::", "<impl f64>::", "<impl usize>::")) and x["args"]:
                a_ = x["args"]
                x.pop("f", None)
                x.update({"k": "mcall", "name": d.rsplit("::", 1)[-1], "callee": d, "recv": a_[0], "args": a_[1:]})
            else:
                x["callee"] = d
    has_ret = any(x.get("k") == "ret" for x in _walk(body))
    lbl = None
    if has_ret:
        lbl = off + 999999
        for x in _walk(body):
            if x.get("k") == "ret":
                x["k"] = "break"
                x["label"] = lbl
                x["from_ret"] = True
    # body is a `blk`/`block` expression
    inner = body
    if inner.get("k") == "blk":
        blockn = inner["b"]
    elif inner.get("k") == "block":
        blockn = inner
    else:
        blockn = {"k": "block", "stmts": [], "tail": inner}
    blockn = {"k": "block", "stmts": lets + list(blockn["stmts"]), "tail": blockn["tail"]}
    out = {"k": "blk", "b": blockn, "inlined": helper["path"], "line": call.get("line")}
    if lbl is not None:
        out["lbl"] = lbl
    for key in ("t", "ta"):
        if key in call:
            out[key] = call[key]
    return out


def _replace_calls(n, targets, fns, counter, done):
    """rewrite call nodes to `targets` below n; returns new node."""
    if isinstance(n, list):
        return [_replace_calls(v, targets, fns, counter, done) for v in n]
    if not isinstance(n, dict):
        return n
    for key, v in list(n.items()):
        if isinstance(v, (dict, list)):
            n[key] = _replace_calls(v, targets, fns, counter, done)
    if n.get("k") in ("call", "mcall"):
        c = _callee(n)
        if c in targets:
            counter[0] += 1
            e = _expand(n, fns[c], counter[0])
            if e is not None:
                done.setdefault(c, 0)
                done[c] += 1
                return e
            done.setdefault("!" + c, 0)
    return n


def _strip_ref_ty(t):
    t = _strip_ref_ty0(t)
    if t.startswith("[") and t.endswith("]") and ";" not in t:
        t = "std::vec::Vec<%s>" % t[1:-1]          # a slice parameter takes the same arguments as a `&Vec<T>` one
    return t


def _strip_ref_ty0(t):
    t = (t or "").strip()
    while t.startswith("&"):
        t = t[1:].lstrip()
        if t.startswith("mut "):
            t = t[4:]
        if t.startswith("'"):
            t = t.split(" ", 1)[1] if " " in t else t
    return t


def _call_sites(fns, path):
    out = []
    for caller, f in fns.items():
        for x in _walk(f.get("body")):
            if x.get("k") in ("call", "mcall") and _callee(x) == path:
                out.append((caller, x))
    return out


def _self_bind(fn):
    for p in fn.get("params") or []:
        q = p
        while q is not None and q.get("k") in ("ref", "deref"):
            q = q["p"]
        if q is not None and q.get("k") == "bind" and q.get("name") == "self":
            return q
    return None


def _self_rooted_place(n, self_hid, depth=0):
    """`self.f`, `&self.f`, `self.f.g` - a field path of the caller's self"""
    while n is not None and n.get("k") in ("ref", "blk") and depth < 6:
        n = n["x"] if n["k"] == "ref" else (n["b"]["tail"] if not n["b"]["stmts"] else None)
        depth += 1
    if n is None or n.get("k") != "field":
        return None
    path = []
    while n is not None and n.get("k") == "field":
        path.append(n["f"])
        n = n["b"]
        while n is not None and n.get("k") in ("ref", "un"):
            n = n["x"]
    if n is not None and n.get("k") == "local" and n.get("hid") == self_hid:
        return tuple(reversed(path))
    return None


def _adapt(fns, cand, want, types):
    """try to bring the new private function `cand` to the signature `want` (inputs/output of a missing pinned function) by steps that do not
    change what it computes: (1) a parameter that receives the same field of the caller's `self` at every call site *is* that field (the
    function then needs `self`); (2) a dropped `self` parameter is added back (call sites become method calls on the caller's self);
    (3) parameters are put in the pinned order (arguments likewise); `&T` and `T` are not distinguished.  -> True when the signatures agree."""
    f = fns[cand]
    sites = _call_sites(fns, cand)
    if not sites or f.get("body") is None:
        return False
    want_in = [_strip_ref_ty(t) for t in (want.get("inputs") or [])]
    if _strip_ref_ty(f.get("output")) != _strip_ref_ty(want.get("output")):
        return False
    owner_ty = cand.rsplit("::", 1)[0]
    params = list(f.get("params") or [])
    inputs = list(f.get("inputs") or [])
    has_self = _self_bind(f) is not None
    want_self = bool(want_in) and want_in[0] == owner_ty and (want.get("inputs") or [""])[0].lstrip().startswith("&")
    # (2) a dropped self
    if want_self and not has_self:
        callers_ok = all(_self_bind(fns[c_]) is not None and c_.rsplit("::", 1)[0] == owner_ty for (c_, _) in sites)
        if not callers_ok:
            return False
        sh = 8800000 + abs(hash(cand)) % 100000
        self_t = None
        for i_, t_ in enumerate(types):
            if t_ == "&" + owner_ty:
                self_t = i_
        params.insert(0, {"k": "bind", "name": "self", "hid": sh, "mode": "BindingMode(No, Not)", "t": self_t})
        inputs.insert(0, "&" + owner_ty)
        for (caller, x) in sites:
            sb = _self_bind(fns[caller])
            x["k"] = "mcall"
            x["name"] = cand.rsplit("::", 1)[-1]
            x["recv"] = {"k": "local", "name": "self", "hid": sb["hid"], "t": sb.get("t"), "line": x.get("line")}
            x["callee"] = cand
            x.pop("f", None)
        has_self = True
    # (1) parameters that are always a field of the caller's self
    if len(inputs) > len(want_in):
        for k in range(len(params) - 1, -1, -1):
            if has_self and k == 0:
                continue
            q = _plain_bind(params[k])
            tq = None
            if q is None:
                # a tuple pattern `(sh, sw): (usize, usize)` in parameter position
                tp = params[k]
                while tp is not None and tp.get("k") in ("ref", "deref"):
                    tp = tp["p"]
                if tp is not None and tp.get("k") == "tuple" and all(_plain_bind(z) is not None for z in tp["ps"]) \
                        and not any(_assigned(f["body"], _plain_bind(z)["hid"]) for z in tp["ps"]):
                    tq = [_plain_bind(z) for z in tp["ps"]]
            if (q is None and tq is None) or (q is not None and _assigned(f["body"], q["hid"])):
                continue
            fields = set()
            for (caller, x) in sites:
                sb = _self_bind(fns[caller])
                args = ([x["recv"]] if x["k"] == "mcall" else []) + list(x["args"])
                fp = _self_rooted_place(args[k], sb["hid"]) if (sb is not None and k < len(args) and caller.rsplit("::", 1)[0] == owner_ty) else None
                fields.add(fp)
            if len(fields) != 1 or None in fields:
                continue
            if len(inputs) <= len(want_in):
                break
            # substitute: the parameter is self.<path>
            if not has_self:
                break
            sb_own = _self_bind({"params": params})
            path = list(fields)[0]
            expr = {"k": "local", "name": "self", "hid": sb_own["hid"], "t": sb_own.get("t")}
            for fname in path:
                expr = {"k": "field", "b": expr, "f": fname}
            if q is not None:
                expr["t"] = q.get("t")
                f["body"] = _subst(f["body"], {q["hid"]: expr})
            else:
                f["body"] = _subst(f["body"], {z["hid"]: {"k": "field", "b": copy.deepcopy(expr), "f": str(i_), "t": z.get("t")} for i_, z in enumerate(tq)})
            del params[k]
            del inputs[k]
            for (caller, x) in sites:
                if x["k"] == "mcall":
                    if k == 0:
                        return False
                    del x["args"][k - 1]
                else:
                    del x["args"][k]
    if (not want_self) and has_self:
        return False
    # (3) order
    got_in = [_strip_ref_ty(t) for t in inputs]
    if sorted(got_in) != sorted(want_in) or len(got_in) != len(params):
        return False
    perm = []
    used = set()
    for t in want_in:
        k = next((j for j in range(len(got_in)) if j not in used and got_in[j] == t), None)
        if k is None:
            return False
        used.add(k)
        perm.append(k)
    if has_self and perm[0] != 0:
        return False
    f["params"] = [params[k] for k in perm]
    f["inputs"] = [inputs[k] for k in perm]
    if perm != list(range(len(perm))):
        for (caller, x) in sites:
            args = ([x["recv"]] if x["k"] == "mcall" else []) + list(x["args"])
            if len(args) != len(perm):
                return False
            args = [args[k] for k in perm]
            if x["k"] == "mcall":
                x["recv"], x["args"] = args[0], args[1:]
            else:
                x["args"] = args
    # the parameters carry their pinned names (a parameter that was a tuple pattern was given a synthetic one)
    for k_, nm_ in enumerate(want.get("params") or []):
        if nm_ is None or k_ >= len(f["params"]):
            continue
        b_ = _plain_bind(f["params"][k_])
        if b_ is not None and b_.get("name") != nm_ and str(b_.get("name", "")).startswith("_arg"):
            for y in _walk(f["body"]):
                if y.get("k") == "local" and y.get("hid") == b_["hid"]:
                    y["name"] = nm_
            b_["name"] = nm_
    f["adapted_signature"] = True
    return True


def rename_private(facts):
    """A non-public function of the pinned tree that is missing, while exactly one new non-public function of the same `impl` can be brought to
    its signature (see `_adapt`: same types up to order / `&`, a `self` that was dropped, parameters that are always a field of `self`) and no
    other missing function competes for it, was renamed / re-parameterised: it gets its pinned name back (body, call sites and MIR facts).
    No property is about the name or the parameter order of a private function; the rules anchor on the pinned names."""
    try:
        with open(PINNED_PRIVATE) as fh:
            priv = json.load(fh)
    except OSError:
        return []
    pinned = _load() or set()
    fns = facts["fns"]
    missing = [p for p in priv if p not in fns]
    # a pinned private function that still exists but with its parameters reordered / re-typed is adapted in place
    for p in list(priv):
        if p in fns and [_strip_ref_ty(t) for t in (fns[p].get("inputs") or [])] != [_strip_ref_ty(t) for t in (priv[p].get("inputs") or [])]:
            import copy as _c
            snap = _c.deepcopy({k_: v_ for k_, v_ in fns.items()})
            if not _adapt(fns, p, priv[p], facts.get("types") or []):
                for k_ in list(fns):
                    fns[k_] = snap[k_]
    if not missing:
        return []
    new = [p for p, f in fns.items() if p not in pinned and f.get("vis") != "Public" and not p.startswith("<") and f.get("body") is not None]
    renames = {}
    import copy as _c
    for m in missing:
        owner = m.rsplit("::", 1)[0]
        ok = []
        for n in new:
            if n.rsplit("::", 1)[0] != owner or n in renames:
                continue
            snap = _c.deepcopy(fns)
            if _adapt(fns, n, priv[m], facts.get("types") or []):
                ok.append((n, fns.copy()))
            # always restore; the winning adaptation is re-applied below
            for k_ in list(fns):
                fns[k_] = snap[k_]
        # other missing functions that the same candidate could serve make the match ambiguous
        if len(ok) == 1:
            n = ok[0][0]
            rivals = [x for x in missing if x != m and x.rsplit("::", 1)[0] == owner
                      and sorted(_strip_ref_ty(t) for t in (priv[x].get("inputs") or [])) == sorted(_strip_ref_ty(t) for t in (priv[m].get("inputs") or []))
                      and _strip_ref_ty(priv[x].get("output")) == _strip_ref_ty(priv[m].get("output"))]
            if not rivals:
                _adapt(fns, n, priv[m], facts.get("types") or [])
                renames[n] = m
    if not renames:
        return []
    for old_p, new_p in renames.items():
        f = fns.pop(old_p)
        f["path"] = new_p
        f["renamed_from"] = old_p
        fns[new_p] = f
    for f in fns.values():
        for x in _walk(f.get("body")):
            c = x.get("callee")
            if isinstance(c, str):
                base = c[5:] if c.startswith("Self:") else c
                if base in renames:
                    x["callee"] = ("Self:" if c.startswith("Self:") else "") + renames[base]
                    if x.get("k") == "mcall":
                        x["name"] = renames[base].rsplit("::", 1)[-1]
            d = x.get("def")
            if isinstance(d, str) and d in renames:
                x["def"] = renames[d]
    mir = facts.get("mir", {})
    for key in list(mir.keys()):
        v = mir[key]
        if v.get("parent") in renames:
            v["parent"] = renames[v["parent"]]
        for cl in v.get("facts", {}).get("calls", []):
            if cl.get("callee") in renames:
                cl["callee"] = renames[cl["callee"]]
        if key in renames:
            mir[renames[key]] = mir.pop(key)
        else:
            for o_, n_ in renames.items():
                if key.startswith(o_ + "::"):
                    mir[n_ + key[len(o_):]] = mir.pop(key)
                    break
    facts["_renamed_fns"] = [{"from": o_, "to": n_} for o_, n_ in sorted(renames.items())]
    return facts["_renamed_fns"]


def inline_new_helpers(facts):
    pinned = _load()
    facts["_inlined"] = []
    if pinned is None:
        return 0
    rename_private(facts)
    fns = facts["fns"]
    new = [p for p, f in fns.items() if p not in pinned and f.get("body") is not None
           and f.get("kind") in ("Fn", "AssocFn") and not p.startswith("<")]
    # methods of *new private traits* (`<Type as module::Trait>::method`, the trait unknown to the pinned tree): a call `x.method()` names the
    # trait's method; the implementation is chosen by the receiver's type (static dispatch), and is then a helper like any other
    import re as _re2
    old_traits = set()
    for p in pinned:
        m_ = _re2.match(r"^<(.+) as ([^>]+(?:<.*>)?)>::([A-Za-z_0-9]+)$", p)
        if m_:
            old_traits.add(m_.group(2))
    impls = {}
    for p, f in fns.items():
        m_ = _re2.match(r"^<(.+) as ([^>]+(?:<.*>)?)>::([A-Za-z_0-9]+)$", p)
        if m_ and p not in pinned and f.get("body") is not None and m_.group(2) not in old_traits and not m_.group(2).startswith(("std::", "core::", "alloc::", "rayon::")):
            impls.setdefault(m_.group(2) + "::" + m_.group(3), []).append((m_.group(1), p))
        elif m_ and p not in pinned and f.get("body") is not None and m_.group(3) == "from" and m_.group(2).startswith("std::convert::From"):
            # a new `impl From<..> for LocalType` / `impl Default for LocalType` (a private parameter bundle): chosen by the type that is produced
            impls.setdefault(m_.group(2).split("<", 1)[0] + "::" + m_.group(3), []).append((m_.group(1), p))
    if True:
        types = facts.get("types") or []

        def self_ty(x):
            if _callee(x) in ("std::convert::From::from", "std::default::Default::default"):
                ti = x.get("t")
                return _strip_ref_ty0(types[ti]) if ti is not None and ti < len(types) else None
            r = x.get("recv") if x.get("k") == "mcall" else (x["args"][0] if x.get("args") else None)
            if r is None:
                return None
            for key in ("ta", "t"):
                ti = r.get(key)
                if ti is not None and ti < len(types):
                    return _strip_ref_ty0(types[ti])
            return None
        def resolve_trait_calls():
            for f in fns.values():
                for x in _walk(f.get("body")):
                    if x.get("k") == "mcall" and _callee(x) == "std::convert::Into::into" and not x.get("args"):
                        # `v.into()` is `U::from(v)` for the `impl From<T> for U` that produces the expected type
                        tu, tv = x.get("t"), (x["recv"].get("t") if isinstance(x.get("recv"), dict) else None)
                        if tu is not None and tv is not None and tu < len(types) and tv < len(types):
                            want_ = "<%s as std::convert::From<%s>>::from" % (types[tu], types[tv])
                            if want_ not in fns:
                                # an impl for a foreign type (a tuple) is named after the module it is written in
                                alt_ = [p_ for p_ in fns if p_.endswith("<impl std::convert::From<%s> for %s>::from" % (types[tv], types[tu]))]
                                want_ = alt_[0] if len(alt_) == 1 else want_
                            if want_ in fns and want_ not in pinned and fns[want_].get("body") is not None:
                                recv_ = x["recv"]
                                x.pop("recv", None)
                                x.update({"k": "call", "callee": want_, "f": {"k": "path", "def": want_, "line": x.get("line")}, "args": [recv_], "resolved_from_trait": True})
                        continue
                    if x.get("k") in ("call", "mcall") and _callee(x) in impls:
                        cands = impls[_callee(x)]
                        st_ = self_ty(x)
                        pick = [ip for (ty_, ip) in cands if st_ is not None and (ty_ == st_ or _strip_ref_ty(ty_) == _strip_ref_ty(st_))]
                        if len(pick) != 1 and len(cands) == 1:
                            pick = [cands[0][1]]
                        if len(pick) == 1:
                            x["callee"] = pick[0]
                            x["resolved_from_trait"] = True
        resolve_trait_calls()
        new += [ip for lst in impls.values() for (_, ip) in lst]
        new += [p_ for p_, f_ in fns.items() if p_ not in pinned and f_.get("body") is not None and "<impl std::convert::From<" in p_ and p_.endswith(">::from") and p_ not in new]
    else:
        resolve_trait_calls = lambda: None
    if not new:
        return 0
    # drop recursive helpers
    targets = set()
    for p in new:
        if not any(_callee(x) == p for x in _walk(fns[p]["body"]) if x.get("k") in ("call", "mcall")):
            targets.add(p)
    total = 0
    counter = [0]
    callers = {}
    for _round in range(4):
        resolve_trait_calls()       # a generic helper spliced into its caller now calls the trait method on a concrete type
        done = {}
        for path, f in fns.items():
            if f.get("body") is None:
                continue
            before = dict(done)
            f["body"] = _replace_calls(f["body"], targets, fns, counter, done)
            for c, k in done.items():
                if not c.startswith("!") and k != before.get(c, 0):
                    callers.setdefault(c, set()).add(path)
        n = sum(v for c, v in done.items() if not c.startswith("!"))
        total += n
        if n == 0:
            break
    # helpers whose every call site was inlined disappear; their MIR facts move to the callers
    remaining = {}
    for path, f in fns.items():
        if f.get("body") is None:
            continue
        for x in _walk(f["body"]):
            if x.get("k") in ("call", "mcall") and _callee(x) in targets:
                remaining[_callee(x)] = remaining.get(_callee(x), 0) + 1
    mir = facts.get("mir", {})
    for h in sorted(targets):
        if h in callers and h not in remaining:
            # transitive: a helper inlined into another helper is attributed to that helper's callers
            roots = set()
            todo = list(callers[h])
            seen = set()
            while todo:
                c = todo.pop()
                if c in seen:
                    continue
                seen.add(c)
                if c in targets and c in callers and c not in remaining:
                    todo.extend(callers[c])
                else:
                    roots.add(c)
            for key in [k for k, v in mir.items() if v.get("parent") == h]:
                v = mir.pop(key)
                for r in sorted(roots):
                    v2 = copy.deepcopy(v)
                    v2["parent"] = r
                    v2["inlined_from"] = h
                    mir["%s@%s" % (key, r)] = v2
            facts["_inlined"].append({"helper": h, "into": sorted(roots)})
    for h in [x["helper"] for x in facts["_inlined"]]:
        if fns[h].get("vis") != "Public":
            fns.pop(h, None)
    return total
