#!/usr/bin/env python3
"""alpha.py: negative control by alpha-renaming.  Every local binding (parameters other than `self`,
let/match/closure/for bindings) in the extracted HIR mirror of /repo is renamed to a fresh name and every
rule module is re-run on the renamed facts.  A rule whose verdict changes depends on the *name* of a local
variable, which no property is about: that is a false alarm in waiting."""
import copy, os, sys
sys.path.insert(0, os.path.dirname(os.path.dirname(os.path.abspath(__file__))))
from sa import facts as F, core, rules, names


def rename(node, keep_params=False):
    if isinstance(node, dict):
        k = node.get("k")
        if k in ("bind", "local") and "hid" in node and node.get("name") not in (None, "self"):
            node["name"] = "q%s" % str(node["hid"]).replace(":", "_").replace(".", "_")
        for v in node.values():
            rename(v)
    elif isinstance(node, list):
        for v in node:
            rename(v)


def alpha(facts):
    fx = copy.deepcopy(facts)
    for fn in (fx["fns"].values() if isinstance(fx["fns"], dict) else fx["fns"]):
        rename(fn.get("params"))
        rename(fn.get("body"))
    return fx


def run(repo="/repo", quiet=False):
    fx = alpha(F.get_facts(repo, "dev", quiet=True))
    n = names.normalise(fx)
    if not quiet:
        print("alpha: %d bindings renamed back by structural signature" % n)
    known = {k["key"] for k in core.load_known().get("known", [])}
    bad = []
    for prop in rules.PROPS:
        ctx = core.Ctx(prop, fx)
        rules.load(prop).run(ctx)
        ctx.finish_floors()
        for o in ctx.obligations:
            if o["status"] != "ok" and o["key"] not in known:
                bad.append(o["key"] + "  @" + o["where"])
    if not quiet:
        for b in bad:
            print("ALPHA-ALARM", b[:220])
        print("alpha-renaming: %d alarm(s)" % len(bad))
    return bad


if __name__ == "__main__":
    sys.exit(1 if run() else 0)
