#!/usr/bin/env python3
"""Regenerate /verif/MANIFEST.json from the rule modules that exist."""
import importlib
import json
import os
import sys

V = os.path.dirname(os.path.dirname(os.path.abspath(__file__)))
sys.path.insert(0, V)
props = [json.loads(l) for l in open(os.path.join(V, "properties.jsonl"))]
NA = {}
if os.path.exists(os.path.join(V, "spec", "not_applicable.json")):
    NA = json.load(open(os.path.join(V, "spec", "not_applicable.json")))
checks, na = [], []
for p in props:
    pid = p["id"]
    try:
        m = importlib.import_module("sa.rules.%s" % pid.lower())
    except ModuleNotFoundError:
        na.append({"property_id": pid, "reason": NA.get(pid, "check under construction (see DESIGN.md section 4); not claimed yet")})
        continue
    rules = "; ".join("%s %s" % (k, v) for k, v in m.RULES.items())
    cat = m.LEVEL
    text = ("Static analysis of the type-checked program (rustc HIR/MIR via a rustc_private driver) decides these structural clauses, "
            "each a necessary condition of the property, for all inputs/configurations at once: " + rules +
            (" All obligations of the typestate/interval argument are discharged by sound static rules (see DESIGN.md)." if cat == "proof" else
             " The numeric values themselves are not decided (DESIGN.md section 4, 'not decided')."))
    checks.append({
        "property_id": pid,
        "quick_cmd": "./check %s --tier quick" % pid,
        "thorough_cmd": "./check %s --tier thorough" % pid,
        "evidence_file": "/verif/evidence/%s.json" % pid,
        "replay_cmd_template": "./check %s --replay {path}" % pid,
        "engine": "nn-static",
        "level_claimed": {"category": cat, "text": text[:6000], "design_ref": "DESIGN.md section 4, %s" % pid},
        "level_note": "Trusted base: " + "; ".join(m.TRUSTED) + ". Assumptions: " + "; ".join(m.ASSUMPTIONS),
        "technique": getattr(m, "TECHNIQUE", "static analysis: custom rustc_private HIR/MIR fact extractor + repository-specific rules "
                             "(sibling agreement, canonical-form agreement with documented formulas, interval/sign abstract interpretation, "
                             "control-flow/typestate/who-may-write rules)"),
    })
man = {
    "version": 1,
    "setup_cmd": "cd /verif/driver && CARGO_NET_OFFLINE=true cargo +nightly build --release --offline",
    "hooks": {"guard": "neurons_verif (unused: static analysis needs no hooks in /repo)", "enable": "none - checks analyse /repo's plain library build",
              "baseline_off_cmd": "cd /repo && cargo test --workspace --no-fail-fast --offline", "source_commits": [], "add_only": True},
    "engines": [{"name": "nn-static", "path": "/verif/check", "serves_properties": [c["property_id"] for c in checks],
                 "kind_free_text": "rustc_private driver (driver/) dumping typed HIR + MIR facts of /repo's current tree; Python rule engines (sa/): "
                                   "E1 element-wise extractor + rational normal form, E2 interval/sign/NaN abstract interpretation, "
                                   "E4 path/typestate/effect rules; per-property rules in sa/rules"}],
    "checks": checks,
    "notes": "All checks are static: they never run library code. Exit 0 = all obligations discharged; exit 1 + VIOLATION line = a rule "
             "found a violating construct (replay file names file:line and rule); exit 2 = no verdict (tree does not compile / checker self-test failed). "
             "known_findings.json lists genuine defects that are recorded rather than repaired and the defects repaired by fix: commits.",
    "not_applicable": na,
}
json.dump(man, open(os.path.join(V, "MANIFEST.json"), "w"), indent=1)
print("claimed:", [c["property_id"] for c in checks], "not applicable:", [x["property_id"] for x in na])
