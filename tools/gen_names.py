#!/usr/bin/env python3
"""gen_names.py: regenerate sa/names.json (binding signature -> local name on the pinned tree) from /repo."""
import json, os, sys
sys.path.insert(0, os.path.dirname(os.path.dirname(os.path.abspath(__file__))))
from sa import facts as F, names
fx = F.get_facts("/repo", "dev", quiet=True, normalise="no-names")   # signatures are taken after the desugaring pre-passes
t = names.signatures(fx)
with open(names.TABLE, "w") as fh:
    json.dump(t, fh, indent=0, sort_keys=True)
print("functions:", len(t), "bindings:", sum(len(v) for v in t.values()))

from sa import inline
with open(inline.PINNED, "w") as fh:
    json.dump(sorted(fx["fns"]), fh, indent=0)
print("pinned fns:", len(fx["fns"]))

# signatures of the non-public functions: a function that was merely renamed is recognised by them (sa/inline.py rename_private)
def _pnames(f):
    out = []
    for q in f.get("params") or []:
        while q is not None and q.get("k") in ("ref", "deref"):
            q = q["p"]
        out.append(q.get("name") if q is not None and q.get("k") == "bind" else None)
    return out


sig = {p: dict(inputs=f.get("inputs"), output=f.get("output"), kind=f.get("kind"), params=_pnames(f)) for p, f in fx["fns"].items()
       if f.get("vis") != "Public" and not p.startswith("<") and "tests::" not in p and f.get("body") is not None}
with open(inline.PINNED_PRIVATE, "w") as fh:
    json.dump(sig, fh, indent=0, sort_keys=True)
print("pinned private fns:", len(sig))
