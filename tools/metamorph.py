#!/usr/bin/env python3
"""metamorph.py [transform[+transform..] ...]: systematic negative controls on the extracted program (see sa/metamorph.py)."""
import os, sys
sys.path.insert(0, os.path.dirname(os.path.dirname(os.path.abspath(__file__))))
from sa import metamorph as M

if __name__ == "__main__":
    which = sys.argv[1:] or list(M.T) + ["+".join(M.T)]
    tot = 0
    for w in which:
        b, _ = M.run(w.split("+"))
        tot += len(b)
    sys.exit(1 if tot else 0)
