#!/usr/bin/env python3
"""e6dump.py <fn path>: print the E6 effect summary of a function (debugging aid)."""
import sys, os
sys.path.insert(0, os.path.dirname(os.path.dirname(os.path.abspath(__file__))))
from sa import facts as F, e6 as e5
from sa.hir import Crate
c = Crate(F.get_facts(sys.argv[2] if len(sys.argv) > 2 else '/repo', 'dev', quiet=True))
fn = c.fn(sys.argv[1])
E = e5.Exec(c, fn)
W = int(os.environ.get("W", "170"))

def dump(paths, ind=0):
    for p in paths:
        pc, eff, ex, val = (p.pc, p.eff, p.exit, p.val) if hasattr(p, "pc") else p
        print(" " * ind + "PATH pc=[%s] exit=%s val=%s" % ("; ".join(("" if b else "!") + e5.show(t, 2) for t, b in pc)[:W], ex if ex is None else (ex[0],), e5.show(val, 2)[:W]))
        for e in eff:
            if e[0] == "loop":
                print(" " * ind + "  LOOP %s over %s" % (e[1], e5.show(e[2], 2)[:W]))
                dump(e[3], ind + 6)
            else:
                print(" " * ind + "  " + e[0] + " " + " | ".join(e5.show(x, 2) for x in e[1:])[:W])
dump(E.run_fn())
