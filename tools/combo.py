#!/usr/bin/env python3
"""combo.py [--max N] <refactor.diff> ... : for every accepted refactoring given, apply every stored seed (seeded/*/patch.diff) that touches
one of the same files on top of it; where both apply and the result still compiles, the seed's own property must still alarm
(a behaviour-preserving rewrite must not hide a breaking change made next to it).  Prints one line per combination that was analysable
and a summary; exit 1 if a combination is silent for the seed's property."""
import concurrent.futures as cf, json, os, re, shutil, subprocess, sys, tempfile
sys.path.insert(0, os.path.dirname(os.path.dirname(os.path.abspath(__file__))))
from sa import facts as F, core, rules, selftest

ROOT = os.path.dirname(os.path.dirname(os.path.abspath(__file__)))


def files_of(patch):
    out = set()
    for l in open(patch, errors="replace"):
        if l.startswith("+++ b/"):
            out.add(l[6:].strip())
    return out


def own_of(seed_dir):
    try:
        m = json.load(open(os.path.join(seed_dir, "meta.json")))
        prop, db = m.get("property"), json.dumps(m.get("detected_by"))
        other = re.search(r"C\d\d", db)
        if prop and prop + "/" not in db and other:
            return other.group(0)      # a seed recorded as caught by another property's check (see its meta.json)
        return prop
    except Exception:
        m = re.search(r"(C\d\d)", os.path.basename(seed_dir))
        return m.group(1) if m else None


def one(ref, seed_dir, slot):
    tmp = tempfile.mkdtemp(prefix="nncombo-")
    try:
        dst = os.path.join(tmp, "repo")
        selftest.make_copy("/repo", dst)
        for k, patch in enumerate((ref, os.path.join(seed_dir, "patch.diff"))):
            r = subprocess.run(["git", "apply", "--unsafe-paths", "--directory=" + dst, patch], cwd="/", capture_output=True, text=True)
            if r.returncode != 0:
                r = subprocess.run(["patch", "-p1", "--fuzz=2", "-s", "-d", dst, "-i", patch], capture_output=True, text=True)
                if r.returncode != 0:
                    return ref, seed_dir, "no-apply", []
        try:
            fx = F.get_facts(dst, "dev", quiet=True, slot=slot)
        except F.NoVerdict:
            return ref, seed_dir, "no-compile", []
        known = {k["key"] for k in core.load_known().get("known", [])}
        prop = own_of(seed_dir)
        ctx = core.Ctx(prop, fx)
        rules.load(prop).run(ctx)
        ctx.finish_floors()
        keys = [o["key"] for o in ctx.obligations if o["status"] != "ok" and o["key"] not in known]
        return ref, seed_dir, "ALARM" if keys else "SILENT", keys
    finally:
        shutil.rmtree(tmp, ignore_errors=True)


if __name__ == "__main__":
    args = sys.argv[1:]
    mx = 10 ** 9
    if args and args[0] == "--max":
        mx = int(args[1])
        args = args[2:]
    refs = [os.path.abspath(a) for a in args]
    seeds = sorted(d for d in (os.path.join(ROOT, "seeded", x) for x in os.listdir(os.path.join(ROOT, "seeded"))) if os.path.isfile(os.path.join(d, "patch.diff")))
    sfiles = {d: files_of(os.path.join(d, "patch.diff")) for d in seeds}
    jobs = []
    for r in refs:
        rf = files_of(r)
        for d in seeds:
            if rf & sfiles[d]:
                jobs.append((r, d))
    jobs = jobs[:mx]
    stats = {}
    bad = []
    with cf.ThreadPoolExecutor(max_workers=12) as ex:
        futs = [ex.submit(one, r, d, "-mut%d" % (i % 12)) for i, (r, d) in enumerate(jobs)]
        for f in futs:
            r, d, st, keys = f.result()
            stats[st] = stats.get(st, 0) + 1
            if st in ("ALARM", "SILENT"):
                print("%-34s + %-40s %s %s" % (os.path.basename(r), os.path.basename(d), st, (keys[0][:80] if keys else "")))
            if st == "SILENT":
                bad.append((r, d))
    print("combinations:", stats)
    sys.exit(1 if bad else 0)
