#!/usr/bin/env python3
"""store_seed.py <prop> <variant_dir> <seed id> <caught_by or MISSED> <needs...>  -> /verif/seeded/<id>/"""
import json, os, shutil, sys
prop, vdir, sid, caught = sys.argv[1:5]
needs = " ".join(sys.argv[5:])
d = os.path.join("/verif/seeded", sid)
os.makedirs(d, exist_ok=True)
for f in os.listdir(vdir):
    if f.endswith((".diff", ".rs", ".md")):
        shutil.copy(os.path.join(vdir, f), os.path.join(d, f))
meta = {"id": sid, "property": prop, "needs_to_manifest": needs,
        "what_i_ran": ["tools/confirm_seed.sh %s <name>  (scratch worktree of /repo HEAD: demo passes without patch; with patch: 70 lib tests pass, demo fails)" % vdir,
                        "tools/try_seed.sh %s/patch.diff %s  (git -C /repo apply; ./check; git -C /repo checkout -- .)" % (vdir, prop)],
        "detected_by": caught, "origin": "independent sub-agent given only the property text and a scratch worktree"}
json.dump(meta, open(os.path.join(d, "meta.json"), "w"), indent=1)
print("stored", d, sorted(os.listdir(d)))
