#!/usr/bin/env python3
"""eval_patches.py <patch> [<patch> ...]: apply each patch to a scratch copy of /repo and run ALL rule modules in-process.
Prints, per patch, the violation keys (not known findings).  Used for false-alarm testing (refactorings) and for seeds."""
import concurrent.futures as cf, os, shutil, subprocess, sys, tempfile
sys.path.insert(0, os.path.dirname(os.path.dirname(os.path.abspath(__file__))))
from sa import facts as F, core, rules, selftest


def one(patch, slot):
    tmp = tempfile.mkdtemp(prefix="nnpatch-")
    try:
        dst = os.path.join(tmp, "repo")
        selftest.make_copy("/repo", dst)
        r = subprocess.run(["git", "apply", "--unsafe-paths", "--directory=" + dst, patch], cwd="/", capture_output=True, text=True)
        if r.returncode != 0:
            r = subprocess.run(["patch", "-p1", "-d", dst, "-i", patch], capture_output=True, text=True)
            if r.returncode != 0:
                return patch, "PATCH-FAILED", [r.stderr[-200:]]
        try:
            fx = F.get_facts(dst, "dev", quiet=True, slot=slot)
        except F.NoVerdict as e:
            return patch, "NOCOMPILE", [str(e)[-300:]]
        known = {k["key"] for k in core.load_known().get("known", [])}
        keys = []
        for prop in rules.PROPS:
            ctx = core.Ctx(prop, fx)
            rules.load(prop).run(ctx)
            ctx.finish_floors()
            keys += [o["key"] + "  @" + o["where"] for o in ctx.obligations if o["status"] != "ok" and o["key"] not in known]
        return patch, "silent" if not keys else "ALARM", keys
    finally:
        shutil.rmtree(tmp, ignore_errors=True)


if __name__ == "__main__":
    summary = "--props" in sys.argv      # one line per patch: the properties that alarm
    ps = [os.path.abspath(p) for p in sys.argv[1:] if p != "--props"]
    F.build_driver()
    import multiprocessing as mp
    with mp.get_context("fork").Pool(14) as pool:
        results = pool.starmap(one, [(p, "-ev%d" % (i % 14)) for i, p in enumerate(ps)], chunksize=1)
    if True:
        for (p, st, keys) in results:
            if summary:
                print(p.replace("/tmp/", ""), st, ",".join(sorted({k.split("/")[0] for k in keys})))
                continue
            print(p.replace("/tmp/", ""), st)
            for k in keys[:8]:
                print("     ", k[:230])
