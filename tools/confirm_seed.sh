#!/bin/bash
# usage: confirm_seed.sh <variant dir containing patch.diff + demo*.rs> <test name>
# Confirms in a scratch worktree of /repo HEAD: (1) patch applies & 70 lib tests pass with it, (2) demo fails with patch, (3) demo passes without.
set -u
V=$1; NAME=$2
W=$(mktemp -d /tmp/confirm-XXXX); rmdir $W
T=/tmp/confirm-target
git -C /repo worktree add -q $W HEAD || exit 3
cd $W
mkdir -p tests
for d in $V/demo*.rs $V/*.rs; do [ -f "$d" ] && cp "$d" tests/$NAME.rs && break; done
export CARGO_NET_OFFLINE=true CARGO_TARGET_DIR=$T
echo "== without patch: demo"; cargo test --offline --test $NAME 2>&1 | grep -E "^test result|^error" | head -3
git apply $V/patch.diff || { echo "PATCH DOES NOT APPLY"; }
echo "== with patch: lib tests"; cargo test --offline --lib 2>&1 | grep -E "^test result|^error" | head -3
echo "== with patch: demo"; cargo test --offline --test $NAME 2>&1 | grep -E "^test result|^error|panicked" | head -4
cd /; git -C /repo worktree remove --force $W
