#!/bin/bash
# usage: try_seed.sh <patch.diff> <Cxx> [more props]   -- applies the patch to /repo, runs the checks, reverts.
P=$1; shift
cd /repo && git apply $P || { echo "patch does not apply to /repo"; exit 3; }
cd /verif
for c in "$@"; do ./check $c 2>&1 | grep -E "^FINDING|^VIOLATION|^\[C" | cut -c1-260; done
git -C /repo checkout -- . ; git -C /repo status --short | head -3
