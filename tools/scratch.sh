#!/bin/sh
# scratch.sh <patch> [dir]: scratch copy of /repo with <patch> applied (default /tmp/scr). For debugging the rules on a patch.
d=${2:-/tmp/scr}
rm -rf "$d"; mkdir -p "$d"
(cd /repo && git ls-files -z | xargs -0 cp --parents -t "$d")
git apply --unsafe-paths --directory="$d" "$1" 2>/dev/null || patch -s -p1 -d "$d" -i "$1"
echo "$d"
